"""Symbolic executor over the real function ASTs -> proof obligations.

One pass per function under contract, path by path.  Calls are replaced by the
callee's contract (never its body, unless the callee has no contract, is small
and non-recursive: then it is inlined and recorded as such).  Loops need an
invariant from the sidecar.  Exceptions are control flow.
"""
from __future__ import annotations

import ast
import os
import builtins as _pybuiltins

import z3

from . import extract, fparith
from .contracts import Args, Case, Contract, HeapView, LoopSpec, World
from .core import (ANY, BOOL, BREAK, BYTES, CONTINUE, CPX, FLOAT, FUNCT, INT, MAP, NEXT, NONE, NONEV, OPT, RAISE, REF,
                   RETURN, SEQ, SETT, STR, SV, TUP, ExcV, Heap, Obligation, State, Ty, U, Unsupported, coerce, eq_sv,
                   fresh, fresh_name, ite_sv, mk_bool, mk_bytes, mk_int, mk_opt_none, mk_opt_some, mk_str, mk_tuple,
                   null_ref, unflat, zstr)

TRACE_NAMES = {"trace", "log", "notrace"}
TRACE_ATTRS = {"_trace", "__trace", "_BaseGateway__trace"}

truthy_any = z3.Function("truthy", U, z3.BoolSort())


# python-side descriptors carried in SV(FUNCT, ...)
def core_NONE_U():
    from . import core

    return core.NONE_U


class ModuleD:
    def __init__(self, name):
        self.name = name


class ClassD:
    def __init__(self, name, module=None):
        self.name, self.module = name, module


class FuncD:
    """A repo function (module, qualname), optionally bound to a receiver, with closure env."""

    def __init__(self, module, qualname, bound=None, closure=None):
        self.module, self.qualname, self.bound, self.closure = module, qualname, bound, closure


class ExternD:
    def __init__(self, name, bound=None):
        self.name, self.bound = name, bound


class BoundBuiltinD:
    def __init__(self, recv: SV, name: str, recv_node=None):
        self.recv, self.name, self.recv_node = recv, name, recv_node


class ExcClassD:
    def __init__(self, names):
        self.names = tuple(names)


BUILTIN_EXC = {n for n in dir(_pybuiltins) if isinstance(getattr(_pybuiltins, n), type) and issubclass(getattr(_pybuiltins, n), BaseException)}


class Frame:
    def __init__(self, module: extract.Module, qualname: str, closure=None):
        self.module, self.qualname = module, qualname
        self.closure = closure  # enclosing State.locals snapshot (dict) for nested defs
        self.loop_ordinal = 0


class Executor:
    def __init__(self, world: World, prop: str = ""):
        self.w = world
        self.prop = prop
        self.obligations: list[Obligation] = []
        self._ob_counts: dict[str, int] = {}
        self.frame: Frame | None = None
        self.frames: list[Frame] = []
        self.inlined: set[str] = set()
        self.used_contracts: set[str] = set()
        self.used_trusted: set[str] = set()
        self.func_under_check = ""
        self.depth = 0
        self.feas_checks = 0
        self.written_fields: set[str] | None = None
        self.inputs: dict[str, SV] = {}
        self.cur_old: Heap | None = None
        self.path_limit = 4000
        self.paths = 0
        self.cur_contract = None

    # ------------------------------------------------------------------
    # obligations
    # ------------------------------------------------------------------
    def oblige(self, st: State, kind: str, detail: str, goal, note="", assume_after=True):
        key = f"{self.func_under_check}/{kind}@{detail}"
        n = self._ob_counts.get(key, 0)
        self._ob_counts[key] = n + 1
        ob = Obligation(f"{key}#{n}", kind, st.pc, goal, where=self.func_under_check, note=note)
        ob.inputs = dict(self.inputs)
        ob.group = key
        self.obligations.append(ob)
        if assume_after:
            st.assume(goal)
        return ob

    def feasible(self, st: State) -> bool:
        if not st.pc:
            return True
        self.feas_checks += 1
        s = z3.Solver()
        # a resource limit, not a wall-clock one: whether a fork is explored must not depend on how busy the machine is (`unknown` counts as feasible, which is sound);
        # the wall-clock limit is only a backstop
        s.set("rlimit", int(os.environ.get("PYVC_FEAS_RLIMIT", "1000000")))
        s.set("timeout", 20000)
        s.add(*st.pc)
        from .smt import instantiate_axioms

        s.add(*instantiate_axioms(self.w, st.pc))
        return s.check() != z3.unsat

    # ------------------------------------------------------------------
    # truthiness
    # ------------------------------------------------------------------
    def truth(self, v: SV, st=None):
        k = v.ty.kind
        if k == "bool":
            return v.v
        if k == "int":
            return v.v != 0
        if k in ("str", "bytes", "seq"):
            return z3.Length(v.v) > 0
        if k == "none":
            return z3.BoolVal(False)
        if k == "opt":
            return z3.And(z3.Not(v.v[0]), self.truth(v.v[1], st))
        if k == "ref":
            if self.resolve_method(v.ty.cls, "__len__") is not None or self.resolve_method(v.ty.cls, "__bool__") is not None:
                hook = self.w.call_hooks.get(("truth", "ref:" + v.ty.cls))
                if hook is None:
                    raise Unsupported(f"truthiness of {v.ty.cls} (defines __len__/__bool__)")
                return hook(self, v, st)   # st: the state the object is looked at in (None where the caller has none)
            return v.v != 0
        if k == "tuple":
            hook = self.w.call_hooks.get(("truth", "tuple"))      # a sidecar may encode a union (str | bool) as a pair: its truth is the union member's
            if hook is not None:
                got = hook(self, v, st)
                if got is not None:
                    return got
            return z3.BoolVal(len(v.v) > 0)
        if k == "any":
            return truthy_any(v.v)
        if k == "set":
            return v.v != z3.K(v.ty.elem.sorts()[0], z3.BoolVal(False))
        if k == "map":
            return v.v[0] != z3.K(v.ty.key.sorts()[0], z3.BoolVal(False))
        if k == "float":
            raise Unsupported("truthiness of float")
        if k == "func":
            return z3.BoolVal(True)
        if k == "dt":
            hook = self.w.call_hooks.get(("dt", "truth"))
            if hook:
                return hook(self, v)
        raise Unsupported(f"truthiness of {v.ty!r}")

    # ------------------------------------------------------------------
    # exceptions
    # ------------------------------------------------------------------
    def exc_bases(self, cls: str) -> list[str]:
        """All ancestors (inclusive) of an exception class name."""
        out = []
        todo = [cls]
        while todo:
            c = todo.pop(0)
            if c in out:
                continue
            out.append(c)
            if c in self.w.schema.bases:
                todo.extend(self.w.schema.bases[c])
            elif c in BUILTIN_EXC:
                todo.extend(b.__name__ for b in getattr(_pybuiltins, c).__mro__[1:] if b is not object)
        return out

    def exc_issub(self, cls: str, base: str) -> bool:
        alias = {"IOError": "OSError", "EnvironmentError": "OSError", "socket.error": "OSError"}
        base = alias.get(base, base)
        return base in [alias.get(c, c) for c in self.exc_bases(cls)]

    def raise_(self, st: State, sink, cls: str, args=(), origin="", ref=None, exact=True):
        e = ExcV(cls, args, ref, origin)
        e.exact = exact
        e.excluded = ()
        sink.append((st, (RAISE, e)))

    # ------------------------------------------------------------------
    # name resolution
    # ------------------------------------------------------------------
    def lookup_name(self, name: str, st: State) -> SV:
        if name in st.locals:
            return st.locals[name]
        fr = self.frame
        if fr.closure is not None and name in fr.closure:
            return fr.closure[name]
        mod = fr.module
        # a sibling nested function (defined in the same enclosing function): it sees the same enclosing scope
        if fr.closure is not None and "." in fr.qualname:
            sib = fr.qualname.rsplit(".", 1)[0] + "." + name
            if sib in mod.functions and fr.qualname.rsplit(".", 1)[0] not in mod.classes:
                return SV(FUNCT, FuncD(mod, sib, closure=fr.closure))
        return self.module_name(mod, name, st)

    def module_instance(self, mod: extract.Module, name: str, st):
        """`NAME = Class(...)` at module level, Class a repository class: one object shared by every call and every thread.  It exists before the function under
        check runs (allocated in the entry heap), and nothing is known about its fields: whatever invariant a callee needs of it has to be proved from that."""
        for n in mod.tree.body:
            if isinstance(n, ast.Assign) and len(n.targets) == 1 and isinstance(n.targets[0], ast.Name) and n.targets[0].id == name \
                    and isinstance(n.value, ast.Call) and isinstance(n.value.func, ast.Name) and n.value.func.id in mod.classes and any(k.startswith(n.value.func.id + '.') for k in self.w.schema.fields):
                r = SV(REF(n.value.func.id), z3.Int(f"global!{mod.modname}.{name}"))
                if st is not None:
                    st.assume(r.v > 0, self.alloc_sel(st.heap, r.v))
                    mine = tuple(st.ghost.get("$my_allocs", ()))
                    if mine:
                        st.assume(*[r.v != x for x in mine])
                return r
        return None

    def module_name(self, mod: extract.Module, name: str, st=None) -> SV:
        if name in mod.consts and not isinstance(mod.consts[name], (dict,)) and not (isinstance(mod.consts[name], tuple) and mod.consts[name] and mod.consts[name][0] in ("alias", "name")):
            return self.lit(mod.consts[name])
        hook = self.w.attr_hooks.get(("module:" + mod.modname, name))
        if hook:
            return hook(self, None, None)
        if name in mod.functions:
            return SV(FUNCT, FuncD(mod, name))
        if name in mod.classes:
            return SV(FUNCT, ClassD(name, mod))
        if name in self.w.class_home:
            return SV(FUNCT, ClassD(name, extract.load(self.w.class_home[name])))
        if name in BUILTIN_EXC:
            return SV(FUNCT, ExcClassD([name]))
        if name in ("struct", "os", "sys", "traceback", "weakref", "stat", "shutil", "shlex", "inspect", "textwrap", "linecache", "types", "time", "socket"):
            return SV(FUNCT, ModuleD(name))
        # imported repo names:  from .gateway_base import X
        for n in mod.tree.body:
            if isinstance(n, ast.ImportFrom):
                for al in n.names:
                    if (al.asname or al.name) == name:
                        src = (n.module or "").split(".")[-1]
                        for cand in ("execnet." + src, "execnet." + al.name):
                            try:
                                m2 = extract.load(cand)
                            except OSError:
                                continue
                            if cand == "execnet." + al.name:
                                return SV(FUNCT, ModuleD(cand))
                            return self.module_name(m2, al.name)
                        if n.module in ("functools",) and name == "partial":
                            return SV(FUNCT, ExternD("functools.partial"))
                        if n.module == "contextlib" and name == "suppress":
                            return SV(FUNCT, ExternD("contextlib.suppress"))
                        if n.module == "hashlib" and name == "md5":
                            return SV(FUNCT, ExternD("hashlib.md5"))
                        if n.module == "io" and name == "BytesIO":
                            return SV(FUNCT, ExternD("io.BytesIO"))
            if isinstance(n, ast.Import):
                for al in n.names:
                    if (al.asname or al.name.split(".")[0]) == name:
                        return SV(FUNCT, ModuleD(al.name if al.asname else al.name.split(".")[0]))
        if hasattr(_pybuiltins, name):
            return SV(FUNCT, ExternD("builtins." + name))
        inst = self.module_instance(mod, name, st)
        if inst is not None:
            return inst
        raise Unsupported(f"unresolved name {name!r} in {mod.modname}:{self.frame.qualname}")

    def lit(self, v) -> SV:
        if v is None:
            return NONEV
        if isinstance(v, bool):
            return mk_bool(v)
        if isinstance(v, int):
            return mk_int(v)
        if isinstance(v, str):
            return mk_str(v)
        if isinstance(v, bytes):
            return mk_bytes(v)
        if isinstance(v, tuple):
            return mk_tuple([self.lit(x) for x in v])
        if isinstance(v, float):
            return SV(FLOAT, fparith.lit_bits(v))
        if isinstance(v, complex):
            return SV(CPX(FLOAT, FLOAT), (SV(FLOAT, fparith.lit_bits(v.real)), SV(FLOAT, fparith.lit_bits(v.imag))))
        raise Unsupported(f"literal {v!r}")

    # ------------------------------------------------------------------
    # expressions:  generator of (State, SV); exceptional flows go to sink
    # ------------------------------------------------------------------
    def ev(self, node, st: State, sink):
        m = getattr(self, "ev_" + type(node).__name__, None)
        if m is None:
            raise Unsupported(f"expression {type(node).__name__} at line {getattr(node, 'lineno', '?')}")
        yield from m(node, st, sink)

    def ev_list(self, nodes, st, sink):
        """Evaluate expressions left to right; yields (st, [SV...])."""
        if not nodes:
            yield st, []
            return
        for st1, v in self.ev(nodes[0], st, sink):
            for st2, rest in self.ev_list(nodes[1:], st1, sink):
                yield st2, [v] + rest

    def ev_Constant(self, node, st, sink):
        if node.value is Ellipsis:
            raise Unsupported("Ellipsis")
        yield st, self.lit(node.value)

    def ev_Name(self, node, st, sink):
        v = self.lookup_name(node.id, st)
        if v.ty.kind in ("seq", "map", "set") and node.id in st.locals:
            if v.loc is not None and v.loc[0] == "field":
                # the local is an alias of a container held in a field (python reference semantics): read the
                # field's current content, and write mutations back to the field
                cur = st.heap.get(v.loc[1], v.loc[2])
                v = SV(cur.ty, cur.v, loc=v.loc)
            else:
                v = SV(v.ty, v.v, loc=("local", node.id))
        yield st, v

    def ev_JoinedStr(self, node, st, sink):
        # f-string: literal pieces and plain `{expr}` holes whose value is a str are concatenated exactly; any other hole (conversion, format spec, a value that is not a
        # str, an expression outside the subset) contributes an opaque piece (repr/str/format of objects is not modelled)
        def go(i, st1, acc):
            if i == len(node.values):
                yield st1, SV(STR, acc[0] if len(acc) == 1 else z3.Concat(*acc) if acc else z3.StringVal(""))
                return
            part = node.values[i]
            if isinstance(part, ast.Constant) and isinstance(part.value, str):
                yield from go(i + 1, st1, acc + [zstr(part.value)])
                return
            plain = isinstance(part, ast.FormattedValue) and part.conversion == -1 and part.format_spec is None
            # the hole's expression is evaluated as Python does (an expression that raises - `{opcode.decode('ascii')!r}` - raises here); an expression outside
            # the engine's subset is skipped, and then only its exceptions are missed
            probe_sink = []
            try:
                outcomes = list(self.ev(part.value, st1.fork(), probe_sink)) if isinstance(part, ast.FormattedValue) else None
            except Unsupported:
                outcomes, probe_sink = None, []
            if outcomes is None:
                yield from go(i + 1, st1, acc + [fresh(STR, "fstr").v])
                return
            sink.extend(probe_sink)
            for s2, v in outcomes:
                if plain and v.ty.kind == "str":
                    yield from go(i + 1, s2, acc + [v.v])
                else:
                    yield from go(i + 1, s2, acc + [fresh(STR, "fstr").v])

        yield from go(0, st, [])

    def ev_Tuple(self, node, st, sink):
        if any(isinstance(e, ast.Starred) for e in node.elts):
            raise Unsupported("starred tuple display")
        for st2, vals in self.ev_list(node.elts, st, sink):
            yield st2, mk_tuple(vals)

    def ev_List(self, node, st, sink):
        if not node.elts:
            hook = self.w.call_hooks.get(("display", "emptylist"))
            if hook is not None:
                got = hook(self, node, st, sink)   # a sidecar may model one particular list object (shared with a nested function) as a heap object
                if got is not None:
                    yield from got
                    return
            yield st, SV(SEQ(ANY), z3.Empty(z3.SeqSort(U)))  # retyped on first use by coerce_seq
            return
        if any(isinstance(e, ast.Starred) for e in node.elts):
            hook = self.w.call_hooks.get(("display", "starred_list"))
            if hook:
                yield from hook(self, node, st, sink)
                return
            raise Unsupported("starred list display")
        for st2, vals in self.ev_list(node.elts, st, sink):
            t0 = vals[0].ty
            if all(v.ty == t0 for v in vals) and len(t0.sorts()) == 1:
                yield st2, SV(SEQ(t0), z3.Concat(*[z3.Unit(v.t) for v in vals]) if len(vals) > 1 else z3.Unit(vals[0].t))
            else:
                yield st2, mk_tuple(vals)  # heterogeneous fixed-size list treated as a tuple value

    def ev_ListComp(self, node, st, sink):
        """[elt for target in iter (if c)*]: the loop `$comp = []; for target in iter: (if c:) $comp.append(elt)` under a sidecar invariant
        (LoopSpec keyed by (function, 'comp<n>'), n = syntactic ordinal of the comprehension; spec.elem = element type)."""
        if len(node.generators) != 1 or node.generators[0].is_async:
            raise Unsupported("comprehension with several generators")
        fr = self.frame
        if not hasattr(fr, "comp_ids"):
            fr.comp_ids = {}
            fn = fr.module.functions.get(fr.qualname)

            def walk(n):
                for ch in ast.iter_child_nodes(n):
                    if isinstance(ch, (ast.FunctionDef, ast.AsyncFunctionDef, ast.Lambda, ast.ClassDef)):
                        continue
                    if isinstance(ch, ast.ListComp):
                        fr.comp_ids[id(ch)] = len(fr.comp_ids)
                    walk(ch)

            if fn is not None:
                walk(fn)
        n = fr.comp_ids.get(id(node), -1)
        key = (f"{fr.module.modname}:{fr.qualname}", f"comp{n}")
        hook = self.w.call_hooks.get(("listcomp", key))
        if hook is not None:   # a sidecar abstraction of this one comprehension (its exact text is then a static obligation of the property)
            yield from hook(self, node, st, sink)
            return
        spec = self.w.loops.get(key)
        if spec is None:
            raise Unsupported(f"comprehension {key} has no invariant in the sidecar")
        gen = node.generators[0]
        cname = f"$comp{n}"
        body = ast.Expr(value=ast.Call(func=ast.Attribute(value=ast.Name(id=cname, ctx=ast.Load()), attr="append", ctx=ast.Load()), args=[node.elt], keywords=[]))
        for cond in reversed(gen.ifs):
            body = ast.If(test=cond, body=[body], orelse=[])
        loop = ast.For(target=gen.target, iter=gen.iter, body=[body], orelse=[], type_comment=None)
        ast.copy_location(loop, node)
        ast.fix_missing_locations(loop)
        elem = getattr(spec, "elem", None) or ANY
        for st2, it in self.ev(gen.iter, st, sink):
            st2.locals[cname] = SV(SEQ(elem), z3.Empty(SEQ(elem).sorts()[0]), loc=("local", cname))
            for s3, fl in self.run_loop(loop, st2, spec, key, it):
                if fl[0] == NEXT:
                    res = s3.locals.pop(cname)
                    yield s3, SV(res.ty, res.v)
                else:
                    sink.append((s3, fl))

    def ev_Dict(self, node, st, sink):
        hook = self.w.call_hooks.get(("display", "dict"))
        if hook:
            yield from hook(self, node, st, sink)
            return
        raise Unsupported("dict display")

    def ev_IfExp(self, node, st, sink):
        for st1, c in self.ev(node.test, st, sink):
            for st2, br in self.fork(st1, self.truth(c, st1)):
                yield from self.ev(node.body if br else node.orelse, st2, sink)

    def fork(self, st: State, cond):
        """Yield (state, True) and (state, False) for the feasible outcomes of cond."""
        cond = z3.simplify(cond)
        if z3.is_true(cond):
            yield st, True
            return
        if z3.is_false(cond):
            yield st, False
            return
        a = st.fork().assume(cond)
        if self.feasible(a):
            yield a, True
        b = st.fork().assume(z3.Not(cond))
        if self.feasible(b):
            yield b, False

    def ev_BoolOp(self, node, st, sink):
        is_or = isinstance(node.op, ast.Or)

        def go(i, st):
            for st1, v in self.ev(node.values[i], st, sink):
                if i == len(node.values) - 1:
                    yield st1, v
                    continue
                for st2, br in self.fork(st1, self.truth(v, st1)):
                    if br == is_or:
                        yield st2, v
                    else:
                        yield from go(i + 1, st2)

        yield from go(0, st)

    def ev_UnaryOp(self, node, st, sink):
        for st1, v in self.ev(node.operand, st, sink):
            if isinstance(node.op, ast.Not):
                yield st1, mk_bool(z3.Not(self.truth(v, st1)))
            elif isinstance(node.op, ast.USub) and v.ty.kind in ("int", "bool"):
                yield st1, mk_int(-coerce(v, INT).v)
            else:
                raise Unsupported(f"unary {type(node.op).__name__} on {v.ty!r}")

    def ev_BinOp(self, node, st, sink):
        for st1, a in self.ev(node.left, st, sink):
            for st2, b in self.ev(node.right, st1, sink):
                yield from self.binop(node.op, a, b, st2, sink, node)

    def binop(self, op, a: SV, b: SV, st, sink, node=None):
        if a.ty.kind == "opt" or b.ty.kind == "opt":
            for s1, a1 in self.unwrap(a, st, sink, "binary operator"):
                for s2, b1 in self.unwrap(b, s1, sink, "binary operator"):
                    yield from self.binop0(op, a1, b1, s2, sink, node)
            return
        yield from self.binop0(op, a, b, st, sink, node)

    def binop0(self, op, a: SV, b: SV, st, sink, node=None):
        ka, kb = a.ty.kind, b.ty.kind
        num = ("int", "bool")
        if isinstance(op, ast.Mod) and ka == "str":
            r = fresh(STR, "fmt")
            lit = z3.simplify(a.v)
            # `fmt % x`: a tuple x is the argument LIST.  With n directives: a tuple of another length raises TypeError, and so may a value that can turn out to be
            # a tuple (an opaque object, an exception's args); a value that cannot be a tuple is one argument
            if z3.is_string_value(lit):
                import re as _re

                ndir = len(_re.findall(r"%[-#0 +]*(?:\d+|\*)?(?:\.(?:\d+|\*))?[a-zA-Z]", lit.as_string().replace("%%", "")))
                where = f"'%' formatting line {getattr(node, 'lineno', '?')}"
                if kb == "tuple" and not isinstance(b.ty, CPX):
                    if len(b.v) != ndir:
                        self.raise_(st, sink, "TypeError", origin=where + ": the tuple has not one value per directive")
                        return
                elif kb in ("any", "dt", "seq"):
                    # a value that may turn out to be a tuple: the sidecar world says when (hook ("fmt", kind) -> z3 condition for "is a tuple without one value per
                    # directive", or None for "never a tuple"); a SEQ stands for a tuple here only where the engine itself made it one (exception args)
                    hook = self.w.call_hooks.get(("fmt", kb))
                    cond = hook(self, b, ndir, st) if hook else (z3.Length(b.v) != ndir if kb == "seq" and getattr(b, "is_tuple", False) else None)
                    if cond is not None:
                        for s2, bad in self.fork(st, cond):
                            if bad:
                                self.raise_(s2, sink, "TypeError", origin=where + ": the value may be a tuple")
                            else:
                                st = s2
                    if cond is None and ndir != 1:
                        self.raise_(st, sink, "TypeError", origin=where + ": one value for %d directives" % ndir)
                        return
                elif ndir != 1:
                    self.raise_(st, sink, "TypeError", origin=where + ": one value for %d directives" % ndir)
                    return
            if z3.is_string_value(lit):
                # the literal characters of the format survive formatting: the result is at least that long (so `assert "text %s" % x` never fires)
                import re as _re

                keep = len(_re.sub(r"%[-#0 +]*(\d+|\*)?(\.(\d+|\*))?[a-zA-Z]", "", lit.as_string().replace("%%", "%")))
                if keep > 0:
                    st = st.fork().assume(z3.Length(r.v) >= keep)
            yield st, r
            return
        if isinstance(op, ast.Mod) and ka == "bytes":
            yield st, fresh(BYTES, "fmt")
            return
        if fparith.is_floaty(a) or fparith.is_floaty(b):
            r, facts = fparith.binop(op, a, b)
            if facts:
                st = st.fork()
                for f in facts:
                    st.assume(f)
            yield st, r
            return
        if ka in num and kb in num:
            x, y = coerce(a, INT).v, coerce(b, INT).v
            if isinstance(op, ast.Add):
                yield st, mk_int(x + y)
            elif isinstance(op, ast.Sub):
                yield st, mk_int(x - y)
            elif isinstance(op, ast.Mult):
                yield st, mk_int(x * y)
            elif isinstance(op, ast.FloorDiv):
                for s2, br in self.fork(st, y == 0):
                    if br:
                        self.raise_(s2, sink, "ZeroDivisionError", origin="//")
                    else:
                        yield s2, mk_int(z3.If(y > 0, x / y, -((-x) / y) if False else z3.ToInt(z3.ToReal(x) / z3.ToReal(y))))
            elif isinstance(op, ast.Mod):
                for s2, br in self.fork(st, y == 0):
                    if br:
                        self.raise_(s2, sink, "ZeroDivisionError", origin="%")
                    else:
                        yield s2, mk_int(z3.If(y > 0, x % y, -((-x) % (-y))))
            elif isinstance(op, ast.BitOr):
                hook = self.w.externals.get("op.bitor")
                if hook is None:
                    raise Unsupported("bit-or without a model")
                yield st, mk_int(hook(x, y))
            elif isinstance(op, ast.BitAnd):
                hook = self.w.externals.get("op.bitand")
                if hook is None:
                    raise Unsupported("bit-and without a model")
                yield st, mk_int(hook(x, y))
            else:
                raise Unsupported(f"int op {type(op).__name__}")
            return
        if isinstance(op, ast.Add) and ka == kb and ka in ("str", "bytes"):
            yield st, SV(a.ty, z3.Concat(a.v, b.v))
            return
        if isinstance(op, ast.Add) and ka == "seq" and kb == "seq":
            a, b = self.unify_seq(a, b)
            yield st, SV(a.ty, z3.Concat(a.v, b.v))
            return
        if isinstance(op, ast.Add) and ka == "tuple" and kb == "tuple":
            yield st, mk_tuple(a.v + b.v)
            return
        if isinstance(op, ast.Mult) and ka in ("str", "bytes") and kb in num:
            hook = self.w.externals.get("op.repeat")
            if hook is None:
                raise Unsupported("string repetition without a model")
            yield st, SV(a.ty, hook(a.v, coerce(b, INT).v))
            return
        hook = self.w.call_hooks.get(("binop", type(op).__name__))
        if hook:
            yield from hook(self, a, b, st, sink, node)
            return
        raise Unsupported(f"binop {type(op).__name__} on {a.ty!r},{b.ty!r} line {getattr(node, 'lineno', '?')}")

    def unwrap(self, v: SV, st, sink, what="operation"):
        """Optional value used where a concrete one is needed: None -> TypeError path, else the inner value."""
        if v.ty.kind != "opt":
            yield st, v
            return
        for s2, isnone in self.fork(st, v.v[0]):
            if isnone:
                self.raise_(s2, sink, "TypeError", origin=f"None in {what}")
            else:
                inner = v.v[1]
                yield s2, SV(inner.ty, inner.v, loc=v.loc)

    def unify_seq(self, a: SV, b: SV):
        if a.ty == b.ty:
            return a, b
        if a.ty.elem == ANY and z3.is_app(a.v) and a.v.decl().kind() == z3.Z3_OP_SEQ_EMPTY:
            return SV(b.ty, z3.Empty(b.ty.sorts()[0])), b
        if b.ty.elem == ANY and z3.is_app(b.v) and b.v.decl().kind() == z3.Z3_OP_SEQ_EMPTY:
            return a, SV(a.ty, z3.Empty(a.ty.sorts()[0]))
        raise Unsupported(f"sequence types differ: {a.ty!r} vs {b.ty!r}")

    def ev_Compare(self, node, st, sink):
        def go(i, st, left, acc):
            if i == len(node.ops):
                yield st, mk_bool(z3.And(*acc) if len(acc) > 1 else acc[0])
                return
            for st1, right in self.ev(node.comparators[i], st, sink):
                for st2, c in self.compare(node.ops[i], left, right, st1, sink, node):
                    if i == len(node.ops) - 1:
                        yield st2, mk_bool(z3.And(*(acc + [c])) if acc else c)
                    else:
                        # chained: short-circuit when false
                        for st3, br in self.fork(st2, c):
                            if br:
                                yield from go(i + 1, st3, right, acc + [c])
                            else:
                                yield st3, mk_bool(False)

        for st0, left in self.ev(node.left, st, sink):
            yield from go(0, st0, left, [])

    def compare(self, op, a: SV, b: SV, st, sink, node=None):
        ka, kb = a.ty.kind, b.ty.kind
        if isinstance(op, (ast.Eq, ast.NotEq)):
            hook = self.w.call_hooks.get(("eq", ka)) or self.w.call_hooks.get(("eq", kb))
            e = hook(self, a, b) if hook else None
            if e is None:
                e = eq_sv(a, b)
            yield st, (e if isinstance(op, ast.Eq) else z3.Not(e))
            return
        if isinstance(op, (ast.Is, ast.IsNot)):
            if ka == "func" or kb == "func":
                same = ka == kb and self.same_desc(a.v, b.v)
                e = z3.BoolVal(same)
            elif ka == "any" and kb == "any":
                e = a.v == b.v
            elif "any" in (ka, kb) and "none" in (ka, kb):
                # an opaque value may well be None (None stored in an opaque slot is NONE_U)
                e = (a.v if ka == "any" else b.v) == core_NONE_U()
            elif "any" in (ka, kb) and ka != kb:
                raise Unsupported(f"`is` between an opaque value and {b.ty if ka == 'any' else a.ty!r}")
            elif {ka, kb} <= {"none", "opt", "ref", "any"} or ka == kb == "bool":
                e = eq_sv(a, b)
            elif "none" in (ka, kb):
                e = z3.BoolVal(False)
            elif ka == kb and ka in ("str", "bytes", "int", "float"):
                # identity of immutable values is not determined by their value (interning, caching): an unspecified
                # boolean that can only be true when the values are equal
                e = z3.FreshConst(z3.BoolSort(), "same_object")
                st = st.fork().assume(z3.Implies(e, eq_sv(a, b)))
            else:
                raise Unsupported(f"`is` on {a.ty!r},{b.ty!r}")
            yield st, (e if isinstance(op, ast.Is) else z3.Not(e))
            return
        if isinstance(op, (ast.Lt, ast.LtE, ast.Gt, ast.GtE)):
            if ka in ("int", "bool") and kb in ("int", "bool"):
                x, y = coerce(a, INT).v, coerce(b, INT).v
                yield st, {ast.Lt: x < y, ast.LtE: x <= y, ast.Gt: x > y, ast.GtE: x >= y}[type(op)]
                return
            raise Unsupported(f"ordering on {a.ty!r},{b.ty!r}")
        if isinstance(op, (ast.In, ast.NotIn)):
            e = None
            if kb in ("str", "bytes") and ka == kb:
                e = z3.Contains(b.v, a.v)
            elif kb == "seq" and b.ty.elem.kind == "ref" and ka in ("str", "bytes", "int", "bool", "float"):
                # `"name" in [obj, ...]`: list membership compares with ==, which for a class without __eq__ (object's identity comparison) is never true for a str/number
                cls = b.ty.elem.cls
                if cls not in self.w.class_home:
                    raise Unsupported(f"`in`: {a.ty!r} in a list of {cls} (class not from the repository)")
                for c in self.class_mro(ClassD(cls, extract.load(self.w.class_home[cls]))):
                    if c.module is not None and f"{c.name}.__eq__" in c.module.functions:
                        raise Unsupported(f"`in`: {a.ty!r} in a list of {cls}, which defines __eq__")
                e = z3.BoolVal(False)
            elif kb == "seq":
                e = z3.Contains(b.v, z3.Unit(coerce(a, b.ty.elem).t))
            elif kb == "tuple":
                e = z3.Or([eq_sv(a, x) for x in b.v] or [z3.BoolVal(False)])
            elif kb == "set":
                e = z3.Select(b.v, coerce(a, b.ty.elem).t)
            elif kb == "map":
                e = z3.Select(b.v[0], coerce(a, b.ty.key).t)
            else:
                hook = self.w.call_hooks.get(("contains", kb if kb != "ref" else "ref:" + b.ty.cls))
                if hook:
                    for st2, r in hook(self, a, b, st, sink):
                        yield st2, (r if isinstance(op, ast.In) else z3.Not(r))
                    return
                if kb == "ref":
                    for st2, m in self.getattr(b, "__contains__", st, sink, node):
                        for st3, r in self.call(m, [a], {}, st2, sink, node):
                            yield st3, (self.truth(r) if isinstance(op, ast.In) else z3.Not(self.truth(r)))
                    return
                raise Unsupported(f"`in` on {b.ty!r}")
            yield st, (e if isinstance(op, ast.In) else z3.Not(e))
            return
        raise Unsupported(f"compare {type(op).__name__}")

    def same_desc(self, x, y):
        if type(x) is not type(y):
            return False
        return x.__dict__ == y.__dict__

    # -- attribute ------------------------------------------------------
    def ev_Attribute(self, node, st, sink):
        v = node.value
        if isinstance(v, ast.Call) and isinstance(v.func, ast.Name) and v.func.id == "super" and not v.args:
            owner = self.frame.qualname.rsplit(".", 1)[0]
            selfv = st.locals.get("self")
            if selfv is None:
                raise Unsupported("super() without self")
            mro = self.class_mro(ClassD(owner, self.frame.module))
            for c in mro[1:]:
                if f"{c.name}.{node.attr}" in c.module.functions:
                    tgt = f"{c.module.modname}:{c.name}.{node.attr}"
                    if tgt in self.w.contracts:
                        yield st, SV(FUNCT, ExternD("contract:" + tgt, bound=selfv))
                    else:
                        yield st, SV(FUNCT, FuncD(c.module, f"{c.name}.{node.attr}", bound=selfv))
                    return
            if node.attr == "__init__":
                yield st, SV(FUNCT, ExternD("builtins.object.__init__"))
                return
            raise Unsupported(f"super().{node.attr}")
        for st1, recv in self.ev(node.value, st, sink):
            yield from self.getattr(recv, node.attr, st1, sink, node)

    def getattr(self, recv: SV, attr: str, st, sink, node=None):
        k = recv.ty.kind
        if k == "func":
            d = recv.v
            if isinstance(d, ModuleD):
                full = f"{d.name}.{attr}"
                if full in self.w.externals or any(x.startswith(full + ".") for x in self.w.externals):
                    if full in self.w.externals and not callable(self.w.externals[full]):
                        yield st, self.w.externals[full]
                    elif full in self.w.externals:
                        yield st, SV(FUNCT, ExternD(full))
                    else:
                        yield st, SV(FUNCT, ModuleD(full))
                    return
                if d.name.startswith("execnet."):
                    yield st, self.module_name(extract.load(d.name), attr)
                    return
                raise Unsupported(f"external {full} has no model")
            if isinstance(d, ClassD):
                mod = d.module
                cc = None
                if mod is not None:
                    for c in self.class_mro(d):
                        if attr in c.module.class_consts.get(c.name, {}):
                            cc = c.module.class_consts[c.name][attr]
                            break
                if cc is not None and not isinstance(cc, dict) and not (isinstance(cc, tuple) and cc and cc[0] in ("alias", "name")):
                    yield st, self.lit(cc)
                    return
                if attr == "__name__":
                    yield st, mk_str(d.name)
                    return
                if mod is not None:
                    for c in self.class_mro(d):
                        if f"{c.name}.{attr}" in c.module.functions:
                            yield st, SV(FUNCT, FuncD(c.module, f"{c.name}.{attr}"))
                            return
                        if c.name != attr and attr in c.module.classes and attr in c.module.class_consts.get(c.name, {}):
                            pass
                    alias = mod.class_consts.get(d.name, {}).get(attr)
                    if isinstance(alias, tuple) and alias and alias[0] == "alias":
                        yield st, self.module_name(mod, alias[1])
                        return
                raise Unsupported(f"class attribute {d.name}.{attr}")
            if isinstance(d, ExcV):
                if attr == "args":
                    if not getattr(d, "exact", True):
                        v_ = fresh(SEQ(ANY), "exc_args")     # an exception raised by opaque code: a tuple of any length
                        v_.is_tuple = True
                        yield st, v_
                    else:
                        yield st, mk_tuple(d.args)
                    return
                if d.ref is not None:
                    yield from self.getattr(d.ref, attr, st, sink, node)
                    return
                raise Unsupported(f"attribute {attr} of exception {d.cls}")
            if isinstance(d, ExcClassD):
                raise Unsupported(f"attribute {attr} of exception class")
            raise Unsupported(f"attribute {attr} of {type(d).__name__}")
        hook = None
        if k == "ref":
            for c in self.w.schema.mro(recv.ty.cls):
                hook = self.w.attr_hooks.get((c, attr))
                if hook:
                    break
        else:
            hook = self.w.attr_hooks.get((k, attr))
        if hook:
            self._cur_sink = sink
            r = hook(self, st, recv)
            if hasattr(r, "__next__"):
                yield from r
            else:
                yield st, r
            return
        if k == "ref":
            fd = self.w.schema.lookup(recv.ty.cls, attr)
            if fd is None and not attr.startswith("__") and self.resolve_method(recv.ty.cls, attr) is None and self.w.contract_for_method(recv.ty.cls, attr) is None \
                    and not any(attr in extract.load(self.w.class_home[c]).class_consts.get(c, {}) for c in self.w.schema.mro(recv.ty.cls) if c in self.w.class_home) \
                    and recv.ty.cls in self.w.class_home:
                fd = st.heap.fd(recv.ty.cls, attr)   # unknown instance attribute of a repository class: opaque slot
            if fd is not None and not fd.ghost:
                for st2, isnull in self.fork(st, recv.v == 0):
                    if isnull:
                        self.raise_(st2, sink, "AttributeError", origin=f"None.{attr}")
                    else:
                        ru = getattr(self.cur_contract, "reads_under", None) if self.depth == 0 else None
                        if ru:
                            for c_ in self.w.schema.mro(recv.ty.cls):
                                lf = ru.get((c_, attr))
                                if lf:
                                    # check-then-act atomicity: this function's decision rests on the field, so it must read it inside the critical section
                                    lock = st2.heap.get(recv, lf)
                                    self.oblige(st2, "lock", f"read-of-{attr}-under-{lf}", HeapView(st2.heap, st2.held).holds(lock.v))
                                    break
                        v = st2.heap.get(recv, attr)
                        if v.ty.kind == "ref":
                            st2.assume(z3.Or(v.v == 0, self.alloc_sel(st2.heap, v.v)))
                        if v.ty.kind in ("seq", "map", "set"):
                            v = SV(v.ty, v.v, loc=("field", recv, attr))
                        yield st2, v
                return
            # method?  (a contract on the static class or an ancestor wins over the body)
            c = self.w.contract_for_method(recv.ty.cls, attr)
            if c is not None:
                yield st, SV(FUNCT, ExternD("contract:" + c.target, bound=recv))
                return
            m = self.resolve_method(recv.ty.cls, attr)
            if m is not None:
                yield st, SV(FUNCT, FuncD(m.module, m.qualname, bound=recv))
                return
            # class-level constant reached through an instance
            for cname in self.w.schema.mro(recv.ty.cls):
                home = self.w.class_home.get(cname)
                if home:
                    cc = extract.load(home).class_consts.get(cname, {})
                    if attr in cc and not isinstance(cc[attr], (dict, tuple)):
                        yield st, self.lit(cc[attr])
                        return
                    if attr in cc and isinstance(cc[attr], tuple) and cc[attr] and cc[attr][0] == "alias":
                        yield st, self.module_name(extract.load(home), cc[attr][1])  # e.g. Channel.TimeoutError = TimeoutError
                        return
            raise Unsupported(f"attribute {recv.ty.cls}.{attr} (no field declaration, method or contract) line {getattr(node, 'lineno', '?')}")
        # methods of builtin value types are resolved at call time
        yield st, SV(FUNCT, BoundBuiltinD(recv, attr, getattr(node, "value", None)))

    def class_mro(self, d: ClassD):
        out = []
        todo = [d]
        while todo:
            c = todo.pop(0)
            if any(x.name == c.name for x in out):
                continue
            out.append(c)
            if c.module is not None and c.name in c.module.classes:
                for b in c.module.class_bases(c.name):
                    if b in c.module.classes:
                        todo.append(ClassD(b, c.module))
                    elif b in self.w.class_home:
                        todo.append(ClassD(b, extract.load(self.w.class_home[b])))
        return out

    def resolve_method(self, cls: str, meth: str):
        for c in self.w.schema.mro(cls):
            home = self.w.class_home.get(c)
            if home is None:
                continue
            mod = extract.load(home)
            if f"{c}.{meth}" in mod.functions:
                return FuncD(mod, f"{c}.{meth}")
        return None

    def alloc_sel(self, heap: Heap, ref_t):
        fd = heap.schema.fields["object.$alloc"]
        return z3.Select(heap._arr(fd)[0], ref_t)

    def allocate(self, st: State, cls: str) -> SV:
        r = SV(REF(cls), z3.Int(fresh_name("new_" + cls)))
        st.assume(r.v > 0, z3.Not(self.alloc_sel(st.heap, r.v)))
        st.heap.set(SV(REF("object"), r.v), "$alloc", mk_bool(True))
        if self.written_fields is not None:
            self.written_fields.add("object.$alloc")
        st.ghost = dict(st.ghost)
        st.ghost["$my_allocs"] = tuple(st.ghost.get("$my_allocs", ())) + (r.v,)
        for fname, val in getattr(self.w, "alloc_defaults", {}).get(cls, {}).items():
            st.heap.set(r, fname, self.lit(val))  # ghost state of a fresh object
        ah = getattr(self.w, "alloc_hooks", {}).get(cls)
        if ah is not None:
            ah(self, st, r)
        cid = getattr(self.w, "class_ids", {}).get(cls)
        if cid is not None and "object.$class" in self.w.schema.fields:
            st.heap.set(SV(REF("object"), r.v), "$class", mk_int(cid))
        return r

    # -- subscript ------------------------------------------------------
    def ev_Subscript(self, node, st, sink):
        for st1, base in self.ev(node.value, st, sink):
            if isinstance(node.slice, ast.Slice):
                parts = [node.slice.lower, node.slice.upper]
                if node.slice.step is not None:
                    raise Unsupported("slice step")
                present = [p for p in parts if p is not None]
                for st2, vals in self.ev_list(present, st1, sink):
                    it = iter(vals)
                    lo = next(it) if parts[0] is not None else None
                    hi = next(it) if parts[1] is not None else None
                    yield from self.slice(base, lo, hi, st2, sink)
            else:
                for st2, idx in self.ev(node.slice, st1, sink):
                    yield from self.index(base, idx, st2, sink, node)

    def slice(self, base: SV, lo, hi, st, sink):
        if base.ty.kind == "opt":
            for s1, b1 in self.unwrap(base, st, sink, "slice"):
                yield from self.slice(b1, lo, hi, s1, sink)
            return
        k = base.ty.kind
        if k == "tuple":
            def const(x, default):
                if x is None:
                    return default
                x = z3.simplify(coerce(x, INT).v)
                if not z3.is_int_value(x):
                    raise Unsupported("symbolic slice of fixed-size tuple")
                return x.as_long()
            yield st, mk_tuple(base.v[const(lo, None):const(hi, None)])
            return
        if k not in ("str", "bytes", "seq"):
            hook = self.w.call_hooks.get(("slice", k))
            if hook:
                yield from hook(self, base, lo, hi, st, sink)
                return
            raise Unsupported(f"slice of {base.ty!r}")
        n = z3.Length(base.v)
        lo_t = py_clamp(coerce(lo, INT).v, n) if lo is not None else z3.IntVal(0)
        hi_t = py_clamp(coerce(hi, INT).v, n) if hi is not None else n
        yield st, SV(base.ty, z3.If(hi_t > lo_t, z3.SubSeq(base.v, lo_t, hi_t - lo_t), z3.Empty(base.v.sort())))

    def index(self, base: SV, idx: SV, st, sink, node=None):
        if base.ty.kind == "opt":
            for s1, b1 in self.unwrap(base, st, sink, "subscript"):
                yield from self.index(b1, idx, s1, sink, node)
            return
        k = base.ty.kind
        if k == "tuple":
            i = z3.simplify(coerce(idx, INT).v)
            if not z3.is_int_value(i):
                raise Unsupported("symbolic index into fixed-size tuple")
            try:
                yield st, base.v[i.as_long()]
            except IndexError:
                self.raise_(st, sink, "IndexError", origin="tuple index")
            return
        if k in ("str", "bytes", "seq"):
            n = z3.Length(base.v)
            i = coerce(idx, INT).v
            j = z3.If(i < 0, i + n, i)
            for st2, ok in self.fork(st, z3.And(j >= 0, j < n)):
                if not ok:
                    self.raise_(st2, sink, "IndexError", origin=f"index line {getattr(node, 'lineno', '?')}")
                elif k == "seq":
                    ev_ = unflat(base.ty.elem, [base.v[j]])
                    yield st2, SV(ev_.ty, ev_.v, loc=("elem", base.loc, j, base))
                else:
                    yield st2, SV(base.ty if k == "str" else INT, z3.SubSeq(base.v, j, 1) if k == "str" else self.w.externals["bytes.ord"](z3.SubSeq(base.v, j, 1)))
            return
        if k == "map":
            key = coerce(idx, base.ty.key).t
            for st2, ok in self.fork(st, z3.Select(base.v[0], key)):
                if not ok:
                    self.raise_(st2, sink, "KeyError", origin=f"dict lookup line {getattr(node, 'lineno', '?')}")
                else:
                    val = unflat(base.ty.val, [z3.Select(a, key) for a in base.v[1]])
                    if val.ty.kind in ("seq", "set", "map") and base.loc is not None:
                        val = SV(val.ty, val.v, loc=("mapelem", base.loc, key, base))   # a container stored in a dict: mutations are written back under the key
                    yield st2, val
            return
        hook = self.w.call_hooks.get(("index", k if k != "ref" else "ref:" + base.ty.cls))
        if hook:
            yield from hook(self, base, idx, st, sink, node)
            return
        if k == "ref":
            for st2, m in self.getattr(base, "__getitem__", st, sink, node):
                yield from self.call(m, [idx], {}, st2, sink, node)
            return
        raise Unsupported(f"subscript of {base.ty!r} line {getattr(node, 'lineno', '?')}")

    # -- calls ----------------------------------------------------------
    def trace_call(self, node, st, sink):
        """A call of the tracing helpers: the call itself is dropped (it writes a debug line or nothing), but its ARGUMENTS are evaluated first, as Python does -
        an argument expression that raises (`"%s" % exc.args`) raises here.  An argument outside the engine's subset is skipped (then only its exceptions are missed)."""
        states = [st]
        for arg in list(node.args) + [kw.value for kw in node.keywords]:
            nxt = []
            for s1 in states:
                try:
                    outcomes = list(self.ev(arg, s1.fork(), sink_probe := []))
                except Unsupported:
                    nxt.append(s1)
                    continue
                sink.extend(sink_probe)
                nxt.extend(s2 for s2, _ in outcomes)
            states = nxt
        for s1 in states:
            yield s1, NONEV

    def ev_Call(self, node, st, sink):
        f = node.func
        if isinstance(f, ast.Name) and f.id in TRACE_NAMES and f.id not in st.locals or (
            isinstance(f, ast.Name) and f.id in TRACE_NAMES and st.locals[f.id].ty.kind == "func" and isinstance(st.locals[f.id].v, FuncD) and st.locals[f.id].v.qualname.endswith((".log", ".trace"))
        ):
            yield from self.trace_call(node, st, sink)
            return
        if isinstance(f, ast.Attribute) and f.attr in TRACE_ATTRS:
            yield from self.trace_call(node, st, sink)
            return
        if isinstance(f, ast.Name) and f.id == "cast" and len(node.args) == 2:
            tname = node.args[0].id if isinstance(node.args[0], ast.Name) else (node.args[0].value if isinstance(node.args[0], ast.Constant) else ast.unparse(node.args[0]))
            for st1, v in self.ev(node.args[1], st, sink):
                hook = self.w.call_hooks.get(("cast", tname))
                if hook is None and isinstance(tname, str):
                    # the same type spelled as a string, or widened by `| None` / Optional[...]: what the value is does not depend on the spelling
                    t2 = tname.strip()
                    if len(t2) >= 2 and t2[0] in "'\"" and t2[-1] == t2[0]:
                        t2 = t2[1:-1].strip()
                    for pat in (" | None", "|None"):
                        if t2.endswith(pat):
                            t2 = t2[: -len(pat)].strip()
                    if t2.startswith("None | "):
                        t2 = t2[len("None | "):].strip()
                    if t2.startswith("Optional[") and t2.endswith("]"):
                        t2 = t2[len("Optional["):-1].strip()
                    hook = self.w.call_hooks.get(("cast", t2))
                if hook is not None and v.ty.kind == "any":
                    v = hook(self, v)
                yield st1, v
            return
        if any(isinstance(a, ast.Starred) for a in node.args) or any(kw.arg is None for kw in node.keywords):
            hook = self.w.call_hooks.get(("call", "star"))
            if hook:
                yield from hook(self, node, st, sink)
                return
            raise Unsupported(f"*args/**kwargs call at line {node.lineno}")
        for st1, callee in self.ev(f, st, sink):
            for st2, args in self.ev_list(list(node.args), st1, sink):
                for st3, kwvals in self.ev_list([kw.value for kw in node.keywords], st2, sink):
                    kwargs = {kw.arg: v for kw, v in zip(node.keywords, kwvals)}
                    yield from self.call(callee, args, kwargs, st3, sink, node)

    def call(self, callee: SV, args, kwargs, st, sink, node=None):
        self.paths += 1
        if self.paths > self.path_limit:
            raise Unsupported("path limit exceeded")
        if callee.ty.kind == "any":
            hook = self.w.call_hooks.get(("call", "opaque")) or self.w.call_hooks.get(("call", "any"))
            if hook is None:
                raise Unsupported("call of an opaque callable without a callback model")
            yield from hook(self, callee, args, kwargs, st, sink, node)
            return
        if callee.ty.kind != "func":
            hook = self.w.call_hooks.get(("call", callee.ty.kind))
            if hook is not None:
                yield from hook(self, callee, args, kwargs, st, sink, node)
                return
            raise Unsupported(f"call of non-callable {callee.ty!r} line {getattr(node, 'lineno', '?')}")
        d = callee.v
        if isinstance(d, BoundBuiltinD):
            yield from self.call_builtin_method(d, args, kwargs, st, sink, node)
            return
        if isinstance(d, ExternD):
            if d.name.startswith("contract:"):
                c = self.w.contracts[d.name[len("contract:"):]]
                yield from self.apply_contract(c, ([d.bound] if d.bound is not None else []) + args, kwargs, st, sink, node)
                return
            h = self.w.externals.get(d.name)
            if h is None:
                raise Unsupported(f"external {d.name} has no model (line {getattr(node, 'lineno', '?')})")
            self.used_trusted.add(d.name)
            if isinstance(h, Contract):
                yield from self.apply_contract(h, ([d.bound] if d.bound is not None else []) + args, kwargs, st, sink, node)
            else:
                yield from h(self, ([d.bound] if d.bound is not None else []) + args, kwargs, st, sink, node)
            return
        if isinstance(d, ExcClassD):
            e = ExcV(d.names[0], args)
            e.exact, e.excluded = True, ()
            yield st, SV(FUNCT, e)
            return
        if isinstance(d, ClassD):
            yield from self.construct(d, args, kwargs, st, sink, node)
            return
        if isinstance(d, FuncD):
            target = f"{d.module.modname}:{d.qualname}"
            c = self.w.contracts.get(target)
            allargs = ([d.bound] if d.bound is not None else []) + args
            if c is not None and target != self.func_under_check_target_inlining():
                yield from self.apply_contract(c, allargs, kwargs, st, sink, node, closure_env=d.closure)
            else:
                yield from self.inline(d, allargs, kwargs, st, sink, node)
            return
        raise Unsupported(f"call of {type(d).__name__}")

    def func_under_check_target_inlining(self):
        return None

    def construct(self, d: ClassD, args, kwargs, st, sink, node):
        # exception classes defined in the repo
        if d.module is not None and d.name in d.module.classes and self.is_exc_class(d):
            ref = None
            init = None
            for c in self.class_mro(d):
                if f"{c.name}.__init__" in c.module.functions:
                    init = FuncD(c.module, f"{c.name}.__init__")
                    break
            if init is not None and self.w.schema.lookup(d.name, "$exc") is not None:
                ref = self.allocate(st, d.name)
                for st2, _ in self.inline(FuncD(init.module, init.qualname), [ref] + args, kwargs, st, sink, node):
                    e = ExcV(d.name, args, ref)
                    e.exact, e.excluded = True, ()
                    yield st2, SV(FUNCT, e)
                return
            e = ExcV(d.name, args)
            e.exact, e.excluded = True, ()
            yield st, SV(FUNCT, e)
            return
        hook = self.w.call_hooks.get(("construct", d.name))
        if hook:
            yield from hook(self, d, args, kwargs, st, sink, node)
            return
        home = d.module.modname if d.module is not None else "model"
        c = self.w.contracts.get(f"{home}:{d.name}.__new__")
        if c is not None:
            yield from self.apply_contract(c, args, kwargs, st, sink, node)
            return
        ref = self.allocate(st, d.name)
        self.init_class_defaults(st, ref, d)
        init = self.resolve_method(d.name, "__init__")
        if init is None:
            yield st, ref
            return
        ic = self.w.contracts.get(f"{init.module.modname}:{init.qualname}")
        if ic is not None:
            for st2, _ in self.apply_contract(ic, [ref] + args, kwargs, st, sink, node):
                yield st2, ref
        else:
            for st2, _ in self.inline(init, [ref] + args, kwargs, st, sink, node):
                yield st2, ref

    def init_class_defaults(self, st, ref, d: ClassD):
        for c in reversed(self.class_mro(d)):
            for k, v in c.module.class_consts.get(c.name, {}).items():
                fd = self.w.schema.lookup(ref.ty.cls, k)
                if fd is not None and not isinstance(v, (dict, tuple)):
                    st.heap.set(ref, k, self.lit(v))

    def is_exc_class(self, d: ClassD) -> bool:
        for c in self.class_mro(d):
            for b in c.module.class_bases(c.name) if c.name in c.module.classes else []:
                if b in BUILTIN_EXC:
                    return True
        return False

    # -- inlining -------------------------------------------------------
    def bind_params(self, fn: ast.FunctionDef, args, kwargs, st, sink, lookup_default):
        a = fn.args
        if a.vararg or a.kwarg:
            hook = self.w.call_hooks.get(("bind", "varargs"))
            if hook:
                return hook(self, fn, args, kwargs, st)
            raise Unsupported(f"*args/**kwargs in {fn.name}")
        params = [p.arg for p in a.posonlyargs + a.args]
        if len(args) > len(params):
            raise Unsupported(f"too many positional arguments for {fn.name}")
        bound = dict(zip(params, args))
        for k, v in kwargs.items():
            if k in bound or k not in params + [p.arg for p in a.kwonlyargs]:
                raise Unsupported(f"bad keyword {k} for {fn.name}")
            bound[k] = v
        defaults = dict(zip(params[len(params) - len(a.defaults):], a.defaults))
        for p, dnode in zip(a.kwonlyargs, a.kw_defaults):
            if dnode is not None:
                defaults[p.arg] = dnode
        for p in params + [p.arg for p in a.kwonlyargs]:
            if p not in bound:
                if p not in defaults:
                    raise Unsupported(f"missing argument {p} for {fn.name}")
                bound[p] = lookup_default(defaults[p])
        return bound

    def eval_default(self, mod, dnode, st):
        sink = []
        saved = self.frame
        self.frame = Frame(mod, "<default>")
        try:
            res = list(self.ev(dnode, st, sink))
        finally:
            self.frame = saved
        if len(res) != 1 or sink:
            raise Unsupported("non-trivial default argument")
        return res[0][1]

    def inline(self, d: FuncD, args, kwargs, st, sink, node):
        target = f"{d.module.modname}:{d.qualname}"
        if self.depth > 6 or any(fr.qualname == d.qualname and fr.module is d.module for fr in self.frames):
            raise Unsupported(f"recursive or too deep inlining of {target} (needs a contract)")
        fn = d.module.func(d.qualname)
        nstmts = sum(1 for _ in ast.walk(fn) if isinstance(_, ast.stmt))
        if nstmts > 40 and target not in self.w.inline_ok:
            raise Unsupported(f"{target} has no contract and is too large to inline ({nstmts} statements)")
        self.inlined.add(target)
        bound = self.bind_params(fn, args, kwargs, st, sink, lambda dn: self.eval_default(d.module, dn, st))
        saved_frame, saved_locals = self.frame, st.locals
        self.frames.append(self.frame)
        self.frame = Frame(d.module, d.qualname, closure=d.closure)
        self.depth += 1
        try:
            st.locals = dict(bound)
            st.ghost = dict(st.ghost)
            st.ghost["$caller_locals"] = saved_locals
            flows = self.exec_block(fn.body, st)
        finally:
            self.depth -= 1
            self.frame = saved_frame
            self.frames.pop()
        for st2, fl in flows:
            st2.locals = saved_locals if st2 is st else dict(saved_locals)
            if fl[0] == NEXT:
                yield st2, NONEV
            elif fl[0] == RETURN:
                yield st2, fl[1]
            elif fl[0] == RAISE:
                sink.append((st2, fl))
            else:
                raise Unsupported("break/continue escaping a function")

    # -- contracts at call sites -----------------------------------------
    def bind_contract_args(self, c: Contract, args, kwargs, st):
        names = list(c.params)
        if len(args) > len(names):
            raise Unsupported(f"too many arguments for {c.target}")
        bound = {}
        for n, v in zip(names, args):
            bound[n] = v
        for k, v in kwargs.items():
            if k not in names or k in bound:
                raise Unsupported(f"bad keyword {k} for {c.target}")
            bound[k] = v
        for n in names:
            if n not in bound:
                if n in c.defaults:
                    dv = c.defaults[n]
                    bound[n] = dv if isinstance(dv, SV) else self.lit(dv)
                else:
                    raise Unsupported(f"missing argument {n} for {c.target}")
        out = {}
        self._dyn_checks = []
        for n in names:
            try:
                bt, pt = bound[n].ty, c.params[n]
                if bt.kind == "ref" and pt.kind == "ref" and bt.cls != pt.cls and bt.cls != "object" and pt.cls != "object" \
                        and not self.w.schema.issub(bt.cls, pt.cls) and not self.w.schema.issub(pt.cls, bt.cls):
                    raise Unsupported(f"a {bt.cls} is not a {pt.cls}")
                out[n] = coerce(bound[n], c.params[n])
            except Unsupported as e:
                vk, pk = bound[n].ty.kind, c.params[n].kind
                definite = {"int", "bool", "str", "bytes", "float", "ref", "seq", "map", "set", "tuple"}
                if vk in definite and pk in definite and vk != pk and not ({vk, pk} <= {"int", "bool"}):
                    # statically the wrong type for this parameter (e.g. a str where an exception object is required):
                    # an obligation that fails, not an engine limitation
                    self._dyn_checks.append((n, z3.BoolVal(False)))
                    out[n] = fresh(c.params[n], n)
                    continue
                raise Unsupported(f"argument {n} of {c.target}: {e}")
            if bound[n].ty.kind == "dt" and c.params[n] != bound[n].ty:
                # a dynamically typed value flows into a parameter the contract types statically:
                # that the value really has that type is an obligation at this call
                hook = self.w.call_hooks.get(("coerce-pre", "dt"))
                if hook is None:
                    raise Unsupported(f"argument {n} of {c.target}: dynamic value without a type test")
                self._dyn_checks.append((n, hook(bound[n], c.params[n])))
        return out

    def apply_contract(self, c: Contract, args, kwargs, st: State, sink, node=None, closure_env=None):
        variants = self.w.variants.get(c.target)
        bound = None
        if variants:
            err = None
            for cv in variants:
                if getattr(cv, "verify_only", False):
                    continue   # a variant with a narrowing precondition, verified on its own; call sites use the general variant
                try:
                    bound = self.bind_contract_args(cv, args, kwargs, st)
                    c = cv
                    break
                except Unsupported as e:
                    err = e
            if bound is None:
                raise err
        (self.used_trusted if c.trusted else self.used_contracts).add(c.target)
        if bound is None:
            bound = self.bind_contract_args(c, args, kwargs, st)
        if c.closure and closure_env is not None:
            # a nested function called where it was defined: its free variables are the enclosing scope's current values
            for n, t in c.closure.items():
                if n in closure_env and n not in bound:
                    v = closure_env[n]
                    bound[n] = v if (isinstance(t, SV) or v.ty.kind == "func") else coerce(v, t)
        a = Args(bound)
        h = HeapView(st.heap.copy(), st.held)
        cc = self.cur_contract
        if cc is not None and self.depth == 0 and getattr(cc, "at_call", None) and c.target in cc.at_call:
            # publication order: what the contract of the function under check demands to hold at the moment it makes this call
            # (other threads observe the effect of the call - an event being set, an item being queued - before the function returns)
            for label, f in cc.at_call[c.target](Args(self.inputs), HeapView(self.cur_old) if self.cur_old is not None else h, a, h, st.locals):
                self.oblige(st, "order", f"{c.qualname}:{label}", f, note=f"call at line {getattr(node, 'lineno', '?')}")
        for n, f in getattr(self, "_dyn_checks", []):
            self.oblige(st, "pre", f"{c.qualname}:argument-{n}-has-declared-type", f, note=f"call at line {getattr(node, 'lineno', '?')}")
        self._dyn_checks = []
        if not st.pc or self.feasible(st):
            pass
        else:
            return
        for label, f in c.requires(a, h):
            self.oblige(st, "pre", f"{c.qualname}:{label}", f, note=f"call at line {getattr(node, 'lineno', '?')}")
        cases = c.cases
        for case in cases:
            g = case.when(a, h)
            s2 = st.fork().assume(g)
            if not self.feasible(s2):
                continue
            # frame: havoc what may change
            for cell in c.modifies(a, h):
                cls, ref, field = cell[:3]
                fd = s2.heap.fd(cls, field)
                if self.written_fields is not None:
                    self.written_fields.add(fd.key)
                if ref is None:
                    s2.heap.havoc_field(fd.key)
                else:
                    s2.heap.havoc_at(SV(REF(cls), ref.t if isinstance(ref, SV) else ref), field)
            res = NONEV
            if case.kind == "return":
                if case.result is not None:
                    res = case.result(a, h)
                elif case.restype is not None and case.restype != NONE:
                    rt = case.restype(a, h) if callable(case.restype) and not isinstance(case.restype, Ty) else case.restype
                    if c.allocates and rt.kind == "ref":
                        res = self.allocate(s2, rt.cls)
                    else:
                        res = fresh(rt, "res_" + c.qualname.split(".")[-1])
                        if rt.kind == "ref":
                            s2.assume(z3.Or(res.v == 0, self.alloc_sel(s2.heap, res.v)))
            h2 = HeapView(s2.heap, s2.held)
            rarg = res
            if res.ty.kind != "none":
                try:
                    rarg = res.t
                except Unsupported:
                    rarg = res
            s2.assume(*(case.post_assume or case.post)(a, h, h2, rarg))
            if case.kind == "return":
                yield s2, res
            else:
                e = ExcV(case.exc, tuple(fresh(STR, "excarg") for _ in range(getattr(case, "nargs", 0) or 0)), None, origin=f"{c.qualname}:{case.name}")
                e.exact = getattr(case, "exact", True)
                e.excluded = ()
                if getattr(case, "excluding", ()):
                    e.exact, e.excluded = False, tuple(case.excluding)
                if getattr(case, "excref", None) is not None:
                    e.ref = case.excref(a, h, h2)
                sink.append((s2, (RAISE, e)))

    # -- builtin value methods -------------------------------------------
    def call_builtin_method(self, d: BoundBuiltinD, args, kwargs, st, sink, node):
        from . import pybuiltins

        if d.recv.ty.kind == "opt":
            for s1, r1 in self.unwrap(d.recv, st, sink, f"method {d.name}"):
                yield from self.call_builtin_method(BoundBuiltinD(r1, d.name, d.recv_node), args, kwargs, s1, sink, node)
            return
        k = d.recv.ty.kind
        h = pybuiltins.METHODS.get((k, d.name))
        if h is None:
            hook = self.w.call_hooks.get((k, d.name))
            if hook:
                yield from hook(self, d, args, kwargs, st, sink, node)
                return
            pytype = {"bool": bool, "int": int, "none": type(None), "float": float, "str": str, "bytes": bytes}.get(k)
            if pytype is not None and not hasattr(pytype, d.name):
                # the value's Python type has no such attribute at all (e.g. `.split()` on True): AttributeError, as in Python
                self.raise_(st, sink, "AttributeError", origin=f"{pytype.__name__} has no attribute {d.name!r} (line {getattr(node, 'lineno', '?')})")
                return
            raise Unsupported(f"method {d.name} on {d.recv.ty!r} line {getattr(node, 'lineno', '?')}")
        self.used_trusted.add(f"{k}.{d.name}")
        mx = pybuiltins.METHOD_MAX_ARGS.get((k, d.name))
        if mx is not None and (len(args) > mx or (kwargs and d.name not in ("encode", "decode"))):
            raise Unsupported(f"{k}.{d.name} called with arguments its model does not cover (line {getattr(node, 'lineno', '?')})")
        yield from h(self, d, args, kwargs, st, sink, node)

    def write_back(self, st: State, loc, val: SV):
        """Store a new value of a value-semantic container to where it was read from."""
        if loc is None:
            raise Unsupported("mutation of a container value with no syntactic location (aliasing not modelled)")
        if loc[0] == "elem":
            _, seqloc, j, seq = loc
            n = z3.Length(seq.v)
            new = z3.Concat(z3.SubSeq(seq.v, 0, j), z3.Unit(coerce(val, seq.ty.elem).t), z3.SubSeq(seq.v, j + 1, n - j - 1))
            keep = {k: v for k, v in st.locals.items() if v.loc is loc}
            self.write_back(st, seqloc, SV(seq.ty, new))
            for k, v in keep.items():  # the alias now denotes the updated element
                st.locals[k] = SV(val.ty, val.v, loc=("elem", seqloc, j, SV(seq.ty, new)))
            return
        if loc[0] == "mapelem":
            _, maploc, key, m = loc
            newv = coerce(val, m.ty.val)
            new = SV(m.ty, (z3.Store(m.v[0], key, True), [z3.Store(a, key, t) for a, t in zip(m.v[1], newv.flat())]))
            self.write_back(st, maploc, new)
            return
        if loc[0] == "local":
            st.locals[loc[1]] = SV(val.ty, val.v)
        elif loc[0] == "field":
            self.set_field(st, loc[1], loc[2], val)
        else:
            raise Unsupported("write-back target")

    def set_field(self, st, ref: SV, name: str, val: SV):
        fd = st.heap.fd(ref.ty.cls, name)
        mon = self.w.monitor_guarding(ref.ty.cls, name)
        constructing = self.frame is not None and self.frame.qualname.endswith(".__init__") and "self" in st.locals and st.locals["self"].ty.kind == "ref" and z3.eq(st.locals["self"].v, ref.v)
        if mon is not None and not constructing:
            lock = st.heap.get(SV(REF(mon.cls), ref.v), mon.lockfield)
            self.oblige(st, "lock", f"{mon.cls}.{name}:written-under-{mon.lockfield}", HeapView(st.heap, st.held).holds(lock.v))
        if self.written_fields is not None:
            self.written_fields.add(fd.key)
        if val.ty.kind == "seq" and fd.ty.kind == "seq" and val.ty != fd.ty:
            val, _ = self.unify_seq(val, SV(fd.ty, z3.Empty(fd.ty.sorts()[0])))
        # element aliases into this field are stale once the container changes
        for k, lv in list(st.locals.items()):
            l = lv.loc
            if l is not None and l[0] == "elem" and l[1] is not None and l[1][0] == "field" and l[1][2] == name:
                st.locals[k] = SV(lv.ty, lv.v)
        st.heap.set(ref, name, val)

    # ------------------------------------------------------------------
    # statements
    # ------------------------------------------------------------------
    def exec_block(self, stmts, st: State):
        outs = []
        cur = [st]
        for s in stmts:
            nxt = []
            for c in cur:
                for s2, fl in self.exec_stmt(s, c):
                    if fl[0] == NEXT:
                        nxt.append(s2)
                    else:
                        outs.append((s2, fl))
            cur = nxt
            if not cur:
                break
        outs.extend((c, (NEXT,)) for c in cur)
        return outs

    def exec_stmt(self, node, st: State):
        m = getattr(self, "st_" + type(node).__name__, None)
        if m is None:
            raise Unsupported(f"statement {type(node).__name__} at line {node.lineno}")
        return m(node, st)

    def st_Pass(self, node, st):
        return [(st, (NEXT,))]

    def st_Break(self, node, st):
        return [(st, (BREAK,))]

    def st_Continue(self, node, st):
        return [(st, (CONTINUE,))]

    def st_Expr(self, node, st):
        if isinstance(node.value, ast.Constant):
            return [(st, (NEXT,))]
        outs = []
        for st2, _ in self.ev(node.value, st, outs):
            outs.append((st2, (NEXT,)))
        return outs

    def st_Import(self, node, st):
        for al in node.names:
            st.locals[al.asname or al.name.split(".")[0]] = SV(FUNCT, ModuleD(al.name if al.asname else al.name.split(".")[0]))
        return [(st, (NEXT,))]

    def st_ImportFrom(self, node, st):
        for al in node.names:
            if node.module is None and node.level == 1:
                # `from . import sibling` inside a function: the sibling module of the package the function lives in
                pkg = self.frame.module.modname.rsplit(".", 1)[0]
                try:
                    extract.load(f"{pkg}.{al.name}")
                except Exception:
                    raise Unsupported(f"from . import {al.name}: no such module in {pkg}")
                st.locals[al.asname or al.name] = SV(FUNCT, ModuleD(f"{pkg}.{al.name}"))
                continue
            full = f"{node.module}.{al.name}"
            if full in self.w.externals:
                st.locals[al.asname or al.name] = SV(FUNCT, ExternD(full))
            else:
                raise Unsupported(f"from-import {full} inside a function")
        return [(st, (NEXT,))]

    def st_FunctionDef(self, node, st):
        q = f"{self.frame.qualname}.{node.name}"
        d = FuncD(self.frame.module, q, closure=st.locals)  # by reference: late binding like Python
        if node.args.defaults:
            d.default_env = dict(st.locals)
        st.locals[node.name] = SV(FUNCT, d)
        return [(st, (NEXT,))]

    def st_Return(self, node, st):
        if node.value is None:
            return [(st, (RETURN, NONEV))]
        outs = []
        for st2, v in self.ev(node.value, st, outs):
            outs.append((st2, (RETURN, v)))
        return outs

    def st_Assert(self, node, st):
        outs = []
        for st2, v in self.ev(node.test, st, outs):
            for st3, ok in self.fork(st2, self.truth(v, st2)):
                if ok:
                    outs.append((st3, (NEXT,)))
                else:
                    self.raise_(st3, outs, "AssertionError", origin=f"assert line {node.lineno}")
        return outs

    def st_Raise(self, node, st):
        outs = []
        if node.exc is None:
            cur = st.ghost.get("$handling")
            if cur is None:
                raise Unsupported("bare raise outside handler")
            return [(st, (RAISE, cur))]
        for st2, v in self.ev(node.exc, st, outs):
            e = self.as_exception(v, st2, node)
            outs.append((st2, (RAISE, e)))
        return outs

    def as_exception(self, v: SV, st, node) -> ExcV:
        if v.ty.kind == "func" and isinstance(v.v, ExcV):
            e = v.v
        elif v.ty.kind == "func" and isinstance(v.v, ExcClassD):
            e = ExcV(v.v.names[0])
            e.exact, e.excluded = True, ()
        elif v.ty.kind == "func" and isinstance(v.v, ClassD):
            e = ExcV(v.v.name)
            e.exact, e.excluded = True, ()
        elif v.ty.kind == "ref":
            hook = self.w.call_hooks.get(("raise", "ref"))
            if hook is None:
                raise Unsupported(f"raise of a {v.ty!r} value")
            e = hook(self, v, st)
        else:
            hook = self.w.call_hooks.get(("raise", v.ty.kind))
            if hook is None:
                raise Unsupported(f"raise of a {v.ty!r} value (line {node.lineno})")
            e = hook(self, v, st, node)
        if not e.origin:
            e.origin = f"raise line {node.lineno}"
        return e

    def st_Delete(self, node, st):
        outs = []
        cur = [st]
        for tgt in node.targets:
            nxt = []
            for s in cur:
                if isinstance(tgt, ast.Name):
                    s.locals.pop(tgt.id, None)
                    nxt.append(s)
                elif isinstance(tgt, ast.Subscript):
                    hook = self.w.call_hooks.get(("del", "subscript"))
                    if hook is None:
                        raise Unsupported("del of a subscript")
                    for s2 in hook(self, tgt, s, outs):
                        nxt.append(s2)
                else:
                    raise Unsupported("del target")
            cur = nxt
        return outs + [(s, (NEXT,)) for s in cur]

    def empty_dict_for(self, target, value, st):
        """`self.f = {}` where the sidecar schema declares f as a map: the empty map of that type (None otherwise)"""
        if not (isinstance(value, ast.Dict) and not value.keys and isinstance(target, ast.Attribute) and isinstance(target.value, ast.Name)):
            return None
        recv = st.locals.get(target.value.id)
        if recv is None or recv.ty.kind != "ref":
            return None
        try:
            fd_ = self.w.schema.lookup(recv.ty.cls, target.attr)
            fty = fd_.ty if fd_ is not None else None
            if fty is None:
                return None
        except Exception:
            return None
        if fty.kind != "map":
            return None
        ks = fty.key.sorts()[0]
        def dflt(vs):
            # the value stored for absent keys is never read; a literal keeps the term inside what every back end parses (cvc5: constant arrays of values only)
            if vs == z3.IntSort():
                return z3.IntVal(0)
            if vs == z3.BoolSort():
                return z3.BoolVal(False)
            if vs == z3.StringSort():
                return z3.StringVal("")
            if z3.is_seq_sort(vs) if hasattr(z3, "is_seq_sort") else isinstance(vs, z3.SeqSortRef):
                return z3.Empty(vs)
            return z3.Const(fresh_name("nokey"), vs)

        return SV(fty, (z3.K(ks, z3.BoolVal(False)), [z3.K(ks, dflt(vs)) for vs in fty.val.sorts()]))

    def st_AnnAssign(self, node, st):
        if node.value is None:
            return [(st, (NEXT,))]
        outs = []
        ann = ast.unparse(node.annotation)
        ed = self.empty_dict_for(node.target, node.value, st)
        if ed is not None:
            return [(s, (NEXT,)) for s in self.assign(node.target, ed, st, outs)] + outs
        for st2, v in self.ev(node.value, st, outs):
            if v.ty.kind == "set" and ann in ("set[str]", "set[int]") and z3.is_app(v.v) and v.v.decl().kind() == z3.Z3_OP_CONST_ARRAY:
                # `x: set[str] = set()`: the annotation types the empty set (an element of another type then fails to coerce)
                ety = STR if ann == "set[str]" else INT
                v = SV(SETT(ety), z3.K(ety.sorts()[0], z3.BoolVal(False)))
            for st3 in self.assign(node.target, v, st2, outs):
                outs.append((st3, (NEXT,)))
        return outs

    def st_Assign(self, node, st):
        outs = []
        if len(node.targets) == 1:
            ed = self.empty_dict_for(node.targets[0], node.value, st)
            if ed is not None:
                return [(s, (NEXT,)) for s in self.assign(node.targets[0], ed, st, outs)] + outs
        for st2, v in self.ev(node.value, st, outs):
            cur = [st2]
            for tgt in node.targets:
                nxt = []
                for s in cur:
                    nxt.extend(self.assign(tgt, v, s, outs))
                cur = nxt
            outs.extend((s, (NEXT,)) for s in cur)
        return outs

    def assign(self, tgt, v: SV, st, sink):
        """Returns list of successor states."""
        if isinstance(tgt, ast.Name):
            if v.ty.kind == "dt" and v.loc is not None:
                # a python object modelled as a value, read out of a container: the local is an alias of that element;
                # a later mutation through the local is written back to where it was read from
                st.locals[tgt.id] = v
                return [st]
            st.locals[tgt.id] = SV(v.ty, v.v) if v.loc is not None else v
            if v.loc is not None and v.loc[0] == "field" and v.ty.kind in ("seq", "map", "set"):
                st.locals[tgt.id] = SV(v.ty, v.v, loc=v.loc)   # alias of the field's container object
            return [st]
        if isinstance(tgt, (ast.Tuple, ast.List)):
            if v.ty.kind == "tuple":
                if len(v.v) != len(tgt.elts):
                    self.raise_(st, sink, "ValueError", origin=f"unpack line {tgt.lineno}")
                    return []
                cur = [st]
                for t, x in zip(tgt.elts, v.v):
                    nxt = []
                    for s in cur:
                        nxt.extend(self.assign(t, x, s, sink))
                    cur = nxt
                return cur
            if v.ty.kind == "opt":
                res = []
                for s2, inner in self.unwrap(v, st, sink, "unpacking"):
                    res.extend(self.assign(tgt, inner, s2, sink))
                return res
            hook = self.w.call_hooks.get(("unpack", v.ty.kind))
            if hook:
                return hook(self, tgt, v, st, sink)
            raise Unsupported(f"unpacking of {v.ty!r} at line {tgt.lineno}")
        if isinstance(tgt, ast.Attribute):
            res = []
            for st2, recv in self.ev(tgt.value, st, sink):
                if recv.ty.kind != "ref":
                    hook = self.w.call_hooks.get(("setattr", recv.ty.kind))
                    if hook:
                        res.extend(hook(self, recv, tgt.attr, v, st2, sink))
                        continue
                    raise Unsupported(f"attribute store on {recv.ty!r}")
                hook = None
                for c in self.w.schema.mro(recv.ty.cls):
                    hook = self.w.call_hooks.get(("setattr", "ref:" + c + "." + tgt.attr)) or self.w.call_hooks.get(("setattr", "ref:" + c))
                    if hook:
                        break
                if hook:
                    res.extend(hook(self, recv, tgt.attr, v, st2, sink))
                    continue
                for st3, isnull in self.fork(st2, recv.v == 0):
                    if isnull:
                        self.raise_(st3, sink, "AttributeError", origin=f"None.{tgt.attr} =")
                    else:
                        self.set_field(st3, recv, tgt.attr, v)
                        res.append(st3)
            return res
        if isinstance(tgt, ast.Subscript):
            res = []
            for st2, base in self.ev(tgt.value, st, sink):
                if isinstance(tgt.slice, ast.Slice):
                    hook = self.w.call_hooks.get(("setslice", base.ty.kind))
                    sl = tgt.slice
                    if hook is None and base.ty.kind == "seq" and sl.lower is None and sl.upper is None and sl.step is None and v.ty.kind == "seq":
                        # x[:] = value : the list object keeps its identity, its contents become those of value
                        if z3.is_app(v.v) and v.v.decl().kind() == z3.Z3_OP_SEQ_EMPTY:
                            new = SV(base.ty, z3.Empty(base.ty.sorts()[0]))
                        else:
                            new = coerce(v, base.ty)
                        self.write_back(st2, base.loc, new)
                        res.append(st2)
                        continue
                    if hook is None:
                        raise Unsupported("slice assignment")
                    res.extend(hook(self, base, tgt, v, st2, sink))
                    continue
                for st3, idx in self.ev(tgt.slice, st2, sink):
                    res.extend(self.setitem(base, idx, v, st3, sink, tgt))
            return res
        raise Unsupported(f"assignment target {type(tgt).__name__}")

    def setitem(self, base: SV, idx: SV, v: SV, st, sink, node):
        k = base.ty.kind
        if k == "map":
            key = coerce(idx, base.ty.key).t
            val = coerce(v, base.ty.val)
            new = SV(base.ty, (z3.Store(base.v[0], key, True), [z3.Store(a, key, t) for a, t in zip(base.v[1], val.flat())]))
            self.write_back(st, base.loc, new)
            return [st]
        if k == "seq":
            n = z3.Length(base.v)
            i = coerce(idx, INT).v
            j = z3.If(i < 0, i + n, i)
            res = []
            for st2, ok in self.fork(st, z3.And(j >= 0, j < n)):
                if not ok:
                    self.raise_(st2, sink, "IndexError", origin="list assignment")
                else:
                    e = coerce(v, base.ty.elem).t
                    new = z3.Concat(z3.SubSeq(base.v, 0, j), z3.Unit(e), z3.SubSeq(base.v, j + 1, n - j - 1))
                    self.write_back(st2, base.loc, SV(base.ty, new))
                    res.append(st2)
            return res
        hook = self.w.call_hooks.get(("setitem", k if k != "ref" else "ref:" + base.ty.cls))
        if hook:
            return hook(self, base, idx, v, st, sink, node)
        raise Unsupported(f"item assignment on {base.ty!r} line {node.lineno}")

    def st_AugAssign(self, node, st):
        outs = []
        load = ast.copy_location(_to_load(node.target), node.target)
        for st2, cur in self.ev(load, st, outs):
            for st3, rhs in self.ev(node.value, st2, outs):
                for st4, res in self.binop(node.op, cur, rhs, st3, outs, node):
                    for st5 in self.assign(node.target, res, st4, outs):
                        outs.append((st5, (NEXT,)))
        return outs

    def st_If(self, node, st):
        if extract._is_type_checking(node.test):
            return [(st, (NEXT,))]
        pl = _platform_test(node.test)
        if pl is not None:
            return self.exec_block(node.body if pl else node.orelse, st)
        outs = []
        narrow = None  # `if x is None` / `if x is not None` on an optional local: narrow its type in the branches
        t = node.test
        if isinstance(t, ast.Compare) and len(t.ops) == 1 and isinstance(t.ops[0], (ast.Is, ast.IsNot)) and isinstance(t.left, ast.Name) \
                and isinstance(t.comparators[0], ast.Constant) and t.comparators[0].value is None:
            narrow = (t.left.id, isinstance(t.ops[0], ast.Is))
        # `if x is not None and <more>`: in the true branch every conjunct held, so x is not None there (nothing is known in the else branch)
        narrow_true = []
        if isinstance(t, ast.BoolOp) and isinstance(t.op, ast.And):
            for cj in t.values:
                if isinstance(cj, ast.Compare) and len(cj.ops) == 1 and isinstance(cj.ops[0], ast.IsNot) and isinstance(cj.left, ast.Name) \
                        and isinstance(cj.comparators[0], ast.Constant) and cj.comparators[0].value is None:
                    narrow_true.append(cj.left.id)
        for st2, c in self.ev(node.test, st, outs):
            for st3, br in self.fork(st2, self.truth(c, st2)):
                if narrow is not None and narrow[0] in st3.locals and st3.locals[narrow[0]].ty.kind == "opt":
                    v = st3.locals[narrow[0]]
                    st3.locals[narrow[0]] = NONEV if br == narrow[1] else v.v[1]
                if br:
                    for nm in narrow_true:
                        if nm in st3.locals and st3.locals[nm].ty.kind == "opt":
                            v = st3.locals[nm]
                            st3.assume(z3.Not(v.v[0]))
                            st3.locals[nm] = v.v[1]
                outs.extend(self.exec_block(node.body if br else node.orelse, st3))
        return outs

    def st_With(self, node, st):
        if len(node.items) != 1:
            raise Unsupported("multi-item with")
        item = node.items[0]
        outs = []
        ce = item.context_expr
        # suppress(...)
        if isinstance(ce, ast.Call) and isinstance(ce.func, ast.Name) and ce.func.id == "suppress":
            names = [self.handler_names(a, st) for a in ce.args]
            flat = [n for ns in names for n in ns]
            for st2, fl in self.exec_block(node.body, st):
                if fl[0] == RAISE:
                    for st3, matched, e in self.match_handler(st2, fl[1], flat):
                        outs.append((st3, (NEXT,)) if matched else (st3, (RAISE, e)))
                else:
                    outs.append((st2, fl))
            return outs
        for st2, cm in self.ev(ce, st, outs):
            hook = None
            if cm.ty.kind == "ref":
                for c in self.w.schema.mro(cm.ty.cls):
                    hook = self.w.call_hooks.get(("with", c))
                    if hook:
                        break
            if hook is None and cm.ty.kind == "ref" and self.w.schema.issub(cm.ty.cls, "Lock"):
                if item.optional_vars is not None:
                    raise Unsupported("with lock as name")
                mon, owner = None, None
                if isinstance(ce, ast.Attribute):
                    owners = list(self.ev(ce.value, st2, outs))
                    if len(owners) == 1 and owners[0][1].ty.kind == "ref":
                        owner = owners[0][1]
                        for c in self.w.schema.mro(owner.ty.cls):
                            mon = self.w.monitors.get((c, ce.attr))
                            if mon:
                                break
                reentrant = any(x.eq(cm.v) for x in st2.held)
                st2.held = st2.held + (cm.v,)
                if mon is not None and not reentrant:
                    for f in mon.protected:
                        nv = st2.heap.havoc_at(SV(REF(mon.cls), owner.v), f)
                        if self.written_fields is not None:
                            self.written_fields.add(st2.heap.fd(mon.cls, f).key)
                        # whatever other threads stored meanwhile cannot be an object this invocation allocated and has not published yet
                        for mine in st2.ghost.get("$my_allocs", ()):
                            if nv.ty.kind == "ref":
                                st2.assume(nv.v != mine)
                            elif nv.ty.kind == "set" and nv.ty.elem.kind == "ref":
                                st2.assume(z3.Not(z3.Select(nv.v, mine)))
                            elif nv.ty.kind == "seq" and nv.ty.elem.kind == "ref":
                                st2.assume(z3.Not(z3.Contains(nv.v, z3.Unit(mine))))
                    hv = HeapView(st2.heap, st2.held)
                    st2.assume(*[f_ for _, f_ in mon.invariant_assume(hv, owner.v)])
                    if self.cur_contract is not None and self.cur_contract.stable_at_acquire is not None and self.depth == 0:
                        st2.assume(*self.cur_contract.stable_at_acquire(Args(self.inputs), hv))
                    if self.cur_contract is not None and self.cur_contract.linearize_at_lock and not st2.ghost.get("$linearized"):
                        st2.ghost = dict(st2.ghost)
                        st2.ghost["$linearized"] = HeapView(st2.heap.copy(), st2.held)
                for s3, fl in self.exec_block(node.body, st2):
                    if mon is not None and not reentrant:
                        hv = HeapView(s3.heap, s3.held)
                        for label, f_ in mon.invariant(hv, owner.v):
                            self.oblige(s3, "mon-pres", f"{mon.cls}.{mon.lockfield}:{label}", f_)
                    s3.held = s3.held[:-1]  # balanced: inner with-blocks have released theirs on every exit
                    outs.append((s3, fl))
                continue
            if hook is None:
                raise Unsupported(f"with-statement over {cm.ty!r} at line {node.lineno}")
            outs.extend(hook(self, node, cm, st2))
        return outs

    def handler_names(self, tnode, st) -> list[str]:
        if tnode is None:
            return ["BaseException"]
        if isinstance(tnode, ast.Tuple):
            return [n for e in tnode.elts for n in self.handler_names(e, st)]
        if isinstance(tnode, ast.Name):
            if tnode.id in st.locals:
                v = st.locals[tnode.id]
                if v.ty.kind == "func" and isinstance(v.v, ExcClassD):
                    return list(v.v.names)
                if v.ty.kind == "tuple":
                    return [n for x in v.v for n in (x.v.names if isinstance(x.v, ExcClassD) else [x.v.name])]
            mod = self.frame.module
            for n in mod.tree.body:
                if isinstance(n, ast.Assign) and isinstance(n.targets[0], ast.Name) and n.targets[0].id == tnode.id and isinstance(n.value, ast.Tuple):
                    return [x for e in n.value.elts for x in self.handler_names(e, st)]
            if tnode.id == "TimeoutError" and "TimeoutError" in mod.classes:
                return ["execnet.TimeoutError"]
            return [tnode.id]
        if isinstance(tnode, ast.Attribute):
            known = {"Empty": "queue.Empty", "error": "OSError", "RemoteError": "RemoteError", "gaierror": "socket.gaierror", "TimeoutError": "execnet.TimeoutError"}
            if tnode.attr in known:
                if isinstance(tnode.value, ast.Name) and tnode.value.id == "struct" and tnode.attr == "error":
                    return ["struct.error"]
                return [known[tnode.attr]]
            if isinstance(tnode.value, ast.Name) and tnode.value.id == "self" and tnode.attr == "_sysex":
                return ["KeyboardInterrupt", "SystemExit"]
        raise Unsupported(f"except clause type at line {tnode.lineno}")

    def match_handler(self, st: State, e: ExcV, names: list[str]):
        """Yield (state, matched, exc).  Inexact exceptions (an unknown subclass of e.cls) fork."""
        for n in names:
            if self.exc_issub(e.cls, n) and n not in getattr(e, "excluded", ()):
                yield st, True, e
                return
        if not getattr(e, "exact", True):
            narrower = [n for n in names if self.exc_issub(n, e.cls) and n not in e.excluded]
            if narrower:
                for n in narrower:
                    s2 = st.fork()
                    e2 = ExcV(n, e.args, e.ref, e.origin)
                    e2.exact, e2.excluded = False, e.excluded
                    yield s2, True, e2
                e3 = ExcV(e.cls, e.args, e.ref, e.origin)
                e3.exact, e3.excluded = False, tuple(e.excluded) + tuple(narrower)
                yield st, False, e3
                return
        yield st, False, e

    def st_Try(self, node, st):
        results = []
        for st2, fl in self.exec_block(node.body, st):
            if fl[0] == RAISE:
                handled = False
                pending = [(st2, fl[1])]
                for h in node.handlers:
                    names = self.handler_names(h.type, st2)
                    nxt = []
                    for s, e in pending:
                        for s3, matched, e3 in self.match_handler(s, e, names):
                            if matched:
                                saved = s3.ghost.get("$handling")
                                s3.ghost = dict(s3.ghost)
                                s3.ghost["$handling"] = e3
                                if h.name:
                                    s3.locals[h.name] = SV(FUNCT, e3)
                                for s4, fl4 in self.exec_block(h.body, s3):
                                    s4.ghost = dict(s4.ghost)
                                    s4.ghost["$handling"] = saved
                                    if h.name:
                                        s4.locals.pop(h.name, None)
                                    results.append((s4, fl4))
                            else:
                                nxt.append((s3, e3))
                    pending = nxt
                for s, e in pending:
                    results.append((s, (RAISE, e)))
            elif fl[0] == NEXT:
                results.extend(self.exec_block(node.orelse, st2) if node.orelse else [(st2, fl)])
            else:
                results.append((st2, fl))
        if not node.finalbody:
            return results
        outs = []
        for s, fl in results:
            for s2, fl2 in self.exec_block(node.finalbody, s):
                outs.append((s2, fl if fl2[0] == NEXT else fl2))
        return outs

    # -- loops ------------------------------------------------------------
    def loop_spec(self, node=None):
        """Loops are numbered syntactically (source order within the function, nested defs excluded)."""
        fr = self.frame
        if not hasattr(fr, "loop_ids"):
            fr.loop_ids = {}
            fn = fr.module.functions.get(fr.qualname)

            def walk(n):
                for ch in ast.iter_child_nodes(n):
                    if isinstance(ch, (ast.FunctionDef, ast.AsyncFunctionDef, ast.Lambda, ast.ClassDef)):
                        continue
                    if isinstance(ch, (ast.While, ast.For)):
                        fr.loop_ids[id(ch)] = len(fr.loop_ids)
                    walk(ch)

            if fn is not None:
                walk(fn)
        key = (f"{fr.module.modname}:{fr.qualname}", fr.loop_ids.get(id(node), -1))
        spec = self.w.loops.get(key)
        # Loops that were moved, unchanged, into a private helper method of the same class (called as a statement, no contract of its own, not virtual): the helper is
        # inlined at the call anyway, so its loops are numbered as they are in the helper-inlined text of the function under check, where the sidecar's invariants live.
        root = self.frames[0] if self.frames else fr
        if node is not None and (spec is None or fr is root):
            fl = self._flat_loops(root)
            ent = fl.get((node.lineno, node.col_offset)) if fl else None
            if ent is not None:
                fidx, shifted = ent
                rkey = (f"{root.module.modname}:{root.qualname}", fidx)
                if rkey in self.w.loops and ((fr is not root and spec is None) or (fr is root and shifted)):
                    return self.w.loops[rkey], rkey
        return spec, key

    def _flat_loops(self, root):
        if hasattr(root, "flat_loops"):
            return root.flat_loops
        root.flat_loops = None
        mod, q = root.module, root.qualname
        own = mod.functions.get(q)
        if own is None or "." not in q:
            return None
        has_contract = lambda hq: any(k.split("::")[-1].split("#")[0] == f"{mod.modname}:{hq}" for k in self.w.contracts)
        try:
            flat = extract.flat_func(mod, q, skip=has_contract)
        except Exception:
            return None

        def loops(fn):
            out = []

            def walk(n):
                for ch in ast.iter_child_nodes(n):
                    if isinstance(ch, (ast.FunctionDef, ast.AsyncFunctionDef, ast.Lambda, ast.ClassDef)):
                        continue
                    if isinstance(ch, (ast.While, ast.For)):
                        out.append((ch.lineno, ch.col_offset))
                    walk(ch)

            walk(fn)
            return out

        ownpos, flatpos = loops(own), loops(flat)
        if len(flatpos) == len(ownpos):
            return None
        res, shifted = {}, False
        helper_ord: dict[str, int] = {}
        for i, pos in enumerate(flatpos):
            if pos not in ownpos:
                # a helper's loop: does it have an invariant under its own name?
                hq = next((k for k, f in mod.functions.items() if k.count(".") == q.count(".") and f.lineno <= pos[0] <= (f.end_lineno or f.lineno) and k != q), None)
                n = helper_ord.get(hq, 0)
                helper_ord[hq] = n + 1
                if (f"{mod.modname}:{hq}", n) not in self.w.loops:
                    shifted = True
            res[pos] = (i, shifted)
        root.flat_loops = res
        return res

    def assigned_names(self, stmts) -> set[str]:
        out = set()
        for s in stmts:
            for n in ast.walk(s):
                if isinstance(n, ast.Name) and isinstance(n.ctx, (ast.Store, ast.Del)):
                    out.add(n.id)
                elif isinstance(n, ast.ExceptHandler) and n.name:
                    out.add(n.name)
                elif isinstance(n, (ast.FunctionDef,)):
                    out.add(n.name)
        return out

    def st_While(self, node, st):
        spec, key = self.loop_spec(node)
        if spec is None:
            raise Unsupported(f"loop {key} has no invariant in the sidecar")
        return self.run_loop(node, st, spec, key, None)

    def st_For(self, node, st):
        outs = []
        for st2, it in self.ev(node.iter, st, outs):
            if it.ty.kind == "tuple" and not node.orelse:
                # fixed-size iterable: unroll
                cur = [st2]
                for x in it.v:
                    nxt = []
                    for s in cur:
                        for s2 in self.assign(node.target, x, s, outs):
                            for s3, fl in self.exec_block(node.body, s2):
                                if fl[0] in (NEXT, CONTINUE):
                                    nxt.append(s3)
                                elif fl[0] == BREAK:
                                    outs.append((s3, (NEXT,)))
                                else:
                                    outs.append((s3, fl))
                    cur = nxt
                outs.extend((s, (NEXT,)) for s in cur)
                continue
            spec, key = self.loop_spec(node)
            if spec is None:
                raise Unsupported(f"loop {key} has no invariant in the sidecar")
            outs.extend(self.run_loop(node, st2, spec, key, it))
        return outs

    def run_loop(self, node, st: State, spec: LoopSpec, key, iterable: SV | None):
        from .loopctx import LoopCtx

        outs = []
        is_for = iterable is not None
        kname = f"$k{key[1]}"
        if is_for:
            seq_len, elem_at = self.iter_model(iterable, st)
            st.locals[kname] = mk_int(0)
        # 1. invariant on entry
        pre_view = HeapView(st.heap.copy(), st.held)
        L = LoopCtx(self, st, kname if is_for else None, iterable, pre_view)
        for label, f in spec.invariant(L):
            self.oblige(st, "inv-init", f"loop{key[1]}:{label}", f)
        # 2. arbitrary iteration
        body = st.fork()
        names = self.assigned_names(node.body) | ({kname} if is_for else set())
        if is_for:
            names |= self.assigned_names([ast.Expr(value=node.target)]) | {n.id for n in ast.walk(node.target) if isinstance(n, ast.Name)}
        for n in names:
            if n in body.locals and body.locals[n].ty.kind != "func":
                body.locals[n] = fresh(body.locals[n].ty, n)
        for fk in spec.havoc_fields:
            body.heap.havoc_field(fk)
        cell_keys = {}
        if spec.havoc_cells:
            for cls, ref, field in spec.havoc_cells(L):
                fd = body.heap.fd(cls, field)
                cell_keys.setdefault(fd.key, []).append(ref.t if isinstance(ref, SV) else ref)
                body.heap.havoc_at(SV(REF(cls), ref.t if isinstance(ref, SV) else ref), field)
        body_entry_arrays = {k: list(body.heap.field_terms(k)) for k in cell_keys}
        Lb = LoopCtx(self, body, kname if is_for else None, iterable, pre_view)
        body.assume(*[f for _, f in spec.invariant(Lb)])
        if spec.invariant_assume is not None:
            body.assume(*spec.invariant_assume(Lb))
        saved_written = self.written_fields
        self.written_fields = set()
        v0 = spec.variant(Lb) if spec.variant else None

        def after_iteration(s, kind):
            if is_for:
                s.locals[kname] = mk_int(s.locals[kname].v + 1)
            Ls = LoopCtx(self, s, kname if is_for else None, iterable, pre_view)
            for label, f in spec.invariant(Ls):
                self.oblige(s, "inv-pres", f"loop{key[1]}:{label}", f)
            if v0 is not None:
                v1 = spec.variant(Ls)
                self.oblige(s, "variant", f"loop{key[1]}", z3.And(v0 >= 0, v1 < v0))
            for fk, refs in cell_keys.items():
                new_arrs = s.heap.field_terms(fk)
                old_arrs = body_entry_arrays[fk]
                if all(x.eq(y) for x, y in zip(new_arrs, old_arrs)):
                    continue
                r = z3.Int(fresh_name("loopframe_r"))
                same = z3.And(*[z3.Select(x, r) == z3.Select(y, r) for x, y in zip(old_arrs, new_arrs)])
                self.oblige(s, "loop-frame", f"loop{key[1]}:{fk}", z3.Implies(z3.And(*[r != x for x in refs]), same))

        exits = []  # states leaving the loop normally (cond false / exhausted / break)
        if is_for:
            k = body.locals[kname].v
            body.assume(k >= 0, k <= seq_len)  # inherent to iteration: the index runs from 0 to len
            if getattr(elem_at, "seq", None) is not None:
                # lemma of sequences: the element at a valid index is a member (the seq solvers do not derive it by themselves)
                body.assume(z3.Implies(k < seq_len, z3.Contains(elem_at.seq, z3.Unit(elem_at.seq[k]))))
            for s_in, more in self.fork(body, k < seq_len):
                if not more:
                    exits.append((s_in, "exhausted"))
                    continue
                for s2 in self.assign(node.target, elem_at(k), s_in, outs):
                    for s3, fl in self.exec_block(node.body, s2):
                        if fl[0] in (NEXT, CONTINUE):
                            for s4 in self.live_dict_check(node, iterable, s3, outs):
                                after_iteration(s4, fl[0])
                        elif fl[0] == BREAK:
                            exits.append((s3, "break"))
                        else:
                            outs.append((s3, fl))
        else:
            cond_sink = outs
            always = isinstance(node.test, ast.Constant) and bool(node.test.value)
            if always:
                conds = [(body, mk_bool(True))]
            else:
                conds = list(self.ev(node.test, body, cond_sink))
            for s_c, c in conds:
                for s_in, go in self.fork(s_c, self.truth(c, s_c)):
                    if not go:
                        exits.append((s_in, "exhausted"))
                        continue
                    for s3, fl in self.exec_block(node.body, s_in):
                        if fl[0] in (NEXT, CONTINUE):
                            after_iteration(s3, fl[0])
                        elif fl[0] == BREAK:
                            exits.append((s3, "break"))
                        else:
                            outs.append((s3, fl))
        undeclared = {f for f in self.written_fields if f not in spec.havoc_fields and f not in cell_keys and f != "object.$alloc"}
        if undeclared:
            raise Unsupported(f"loop {key}: body writes heap fields {sorted(undeclared)} not listed in havoc_fields")
        if saved_written is not None:
            saved_written |= self.written_fields
        self.written_fields = saved_written
        for s, how in exits:
            if how == "exhausted" and node.orelse:
                outs.extend(self.exec_block(node.orelse, s))
            else:
                outs.append((s, (NEXT,)))
        return outs

    def live_dict_check(self, node, iterable, st, sink):
        """`for k in d:` over a dict itself (not a snapshot list): asking the iterator for the next key after the body has added or removed a key raises RuntimeError
        ("dictionary changed size during iteration").  Modelled on the key set: unchanged -> go on, changed -> RuntimeError."""
        if iterable is None or iterable.ty.kind != "map":
            yield st
            return
        for s2, now in self.ev(node.iter, st, sink):
            if now.ty != iterable.ty:
                raise Unsupported("the iterated dict was replaced by a value of another type")
            for s3, same in self.fork(s2, now.v[0] == iterable.v[0]):
                if same:
                    yield s3
                else:
                    self.raise_(s3, sink, "RuntimeError", origin=f"dictionary changed size during iteration (line {node.lineno})")

    def iter_model(self, it: SV, st):
        k = it.ty.kind
        hook0 = self.w.call_hooks.get(("iter", k)) if k != "ref" else None
        if hook0 is not None:
            return hook0(self, it, st)
        if k == "seq":
            elem = lambda i: unflat(it.ty.elem, [it.v[i]])
            elem.seq = it.v
            return z3.Length(it.v), elem
        if k in ("str", "bytes"):
            return z3.Length(it.v), (lambda i: SV(it.ty, z3.SubSeq(it.v, i, 1)))
        hook = self.w.call_hooks.get(("iter", k if k != "ref" else "ref:" + it.ty.cls))
        if hook:
            return hook(self, it, st)
        raise Unsupported(f"iteration over {it.ty!r}")

    # ------------------------------------------------------------------
    # verifying one function against its contract
    # ------------------------------------------------------------------
    def verify(self, c: Contract) -> list[Obligation]:
        mod = extract.load(c.module)
        qual = c.qualname
        if qual not in mod.functions and "." in qual:
            # `name = other_method` in the class body: the contract of `name` is checked against the body that really runs
            cname, mname = qual.rsplit(".", 1)
            al = mod.class_consts.get(cname, {}).get(mname)
            if isinstance(al, tuple) and al and al[0] == "alias" and f"{cname}.{al[1]}" in mod.functions:
                qual = f"{cname}.{al[1]}"
        if qual not in mod.functions:
            raise Unsupported(f"function {c.target} not found in the current tree (renamed or removed)")
        fn = mod.func(qual)
        self.func_under_check = c.qualname
        self.cur_contract = c
        before = len(self.obligations)
        st = State(self.w.schema)
        params = {}
        for name, ty in c.params.items():
            v = fresh(ty, name)
            params[name] = v
        self.inputs = dict(params)
        # python parameter names must match the contract's (mechanical binding)
        pynames = [p.arg for p in fn.args.posonlyargs + fn.args.args + fn.args.kwonlyargs]
        for name in c.params:
            if name not in pynames:
                raise Unsupported(f"contract {c.target}: parameter {name} not in the real signature {pynames}")
        for name in pynames:
            if name not in c.params:
                raise Unsupported(f"contract {c.target}: real parameter {name} has no declared type")
        for va in (fn.args.vararg, fn.args.kwarg):
            if va is not None:
                params[va.arg] = fresh(ANY, va.arg)  # *args / **kwargs: opaque, only ever passed on
        for name, v in params.items():
            for r in _refs_in(v):
                st.assume(z3.Or(r == 0, self.alloc_sel(st.heap, r)))
            if name == "self" or (fn.args.args and name == fn.args.args[0].arg and "." in c.qualname and v.ty.kind == "ref" and c.qualname.split(".")[-2] in mod.classes and not _is_static(fn)):
                if v.ty.kind == "ref":
                    st.assume(v.v > 0)
        clos = None
        if c.closure:
            # free variables of a nested function: symbolic like parameters; a module / function of the enclosing scope is given as a value
            clos = {n: (t if isinstance(t, SV) else fresh(t, n)) for n, t in c.closure.items()}
            for n, v in list(clos.items()):
                # the nested function itself among its free variables (recursion): calls see the same symbolic environment
                if v.ty.kind == "func" and isinstance(v.v, FuncD) and v.v.closure is c.closure:
                    clos[n] = SV(FUNCT, FuncD(v.v.module, v.v.qualname, closure=clos))
            self.inputs.update({n: v for n, v in clos.items() if v.ty.kind != "func"})
            for v in clos.values():
                if v.ty.kind == "func":
                    continue
                for r in _refs_in(v):
                    st.assume(z3.Or(r == 0, self.alloc_sel(st.heap, r)))
        a = Args(dict(params, **(clos or {})))
        if getattr(c, "held_on_entry", None):
            st.held = tuple(c.held_on_entry(a, HeapView(st.heap)))  # the contract says the caller holds these locks
        h0 = HeapView(st.heap.copy(), st.held)
        for label, f in c.requires(a, h0):
            st.assume(f)
        if not self.feasible(st):
            raise Unsupported(f"contract {c.target}: precondition is unsatisfiable (vacuous)")
        if c.ghost_init is not None:
            st.ghost = dict(st.ghost, **c.ghost_init(a, h0))
        if c.probes:
            for pname, term in c.probes(a, h0).items():
                pc = z3.Const("probe_" + pname, term.sort())
                st.assume(pc == term)
                ty = STR if term.sort() == z3.StringSort() else INT if term.sort() == z3.IntSort() else BOOL
                self.inputs["probe_" + pname] = SV(ty, pc)
        self.cur_old = h0.heap
        st.locals = dict(params)
        self.frame = Frame(mod, qual, closure=clos)
        self.frames = []
        self.written_fields = set()
        flows = self.exec_block(fn.body, st)
        self.check_exits(c, a, h0, flows)
        self.written_fields = None
        return self.obligations[before:]

    def check_exits(self, c: Contract, a: Args, h0: HeapView, flows):
        mods_cells = c.modifies(a, h0)
        h0_entry = h0
        for st, fl in flows:
            h0 = st.ghost.get("$linearized") or h0_entry
            h2 = HeapView(st.heap)
            if fl[0] in (NEXT, RETURN):
                res = fl[1] if fl[0] == RETURN else NONEV
                alts = []
                for case in c.cases:
                    if case.kind != "return":
                        continue
                    conj = [case.when(a, h0)]
                    if case.result is not None:
                        conj.append(eq_sv(res, case.result(a, h0)))
                        rarg = res
                    else:
                        rt = case.restype(a, h0) if callable(case.restype) and not isinstance(case.restype, Ty) else case.restype
                        rarg = res
                        if rt is not None and rt != NONE:
                            try:
                                if res.ty.kind == "opt" and rt.kind != "opt" and res.ty.inner == rt:
                                    conj.append(z3.Not(res.v[0]))  # the contract promises a value, not None
                                    rarg = res.v[1]
                                else:
                                    rarg = coerce(res, rt)
                            except Unsupported:
                                conj.append(z3.BoolVal(False))
                                rarg = None
                            if rarg is not None:
                                try:
                                    rarg = rarg.t
                                except Unsupported:
                                    pass
                        elif res.ty.kind != "none":
                            conj.append(z3.BoolVal(False))
                    if rarg is not None or res.ty.kind == "none":
                        conj.extend(case.post(a, h0, h2, rarg))
                    alts.append(z3.And(*conj))
                    last_conj = conj
                if len(alts) == 1 and getattr(c, "split_post", False):
                    # one return case: every conjunct of the postcondition is its own obligation (smaller queries, the failing clause is named)
                    for idx, f in enumerate(last_conj):
                        self.oblige(st, "post", f"return.{idx}", f, assume_after=False)
                    self.check_frame(c, a, h0, st, mods_cells)
                    continue
                goal = z3.Or(*alts) if alts else z3.BoolVal(False)
                self.oblige(st, "post", "return", goal, assume_after=False)
            elif fl[0] == RAISE:
                e = fl[1]
                alts = []
                for case in c.cases:
                    if case.kind != "raise":
                        continue
                    covered = self.exc_issub(e.cls, case.exc)
                    for ex_ in getattr(case, "excluding", ()) or ():
                        # "BaseException but not Exception": an exception known to be outside the excluded class
                        if self.exc_issub(e.cls, ex_) or not (getattr(e, "exact", True) or ex_ in getattr(e, "excluded", ())):
                            covered = False
                    if covered:
                        conj = [case.when(a, h0)] + list(case.post(a, h0, h2, e))
                        alts.append(z3.And(*conj))
                goal = z3.Or(*alts) if alts else z3.BoolVal(False)
                self.oblige(st, "exc", f"{e.cls}<-{e.origin}", goal, assume_after=False)
            else:
                raise Unsupported("break/continue at function level")
            self.check_frame(c, a, h0, st, mods_cells)

    def check_frame(self, c, a, h0: HeapView, st: State, cells):
        old = h0.heap
        for key, new_arrs in st.heap.arrays.items():
            old_arrs = old.arrays.get(key)
            if old_arrs is None:
                fd = self.w.schema.fields[key]
                old_arrs = old._arr(fd)
                # keep initial array names consistent between copies
                if all(x.eq(y) for x, y in zip(old_arrs, new_arrs)):
                    continue
            if all(x.eq(y) for x, y in zip(old_arrs, new_arrs)):
                continue
            if key in ("object.$alloc", "object.$class"):
                continue
            fd = self.w.schema.fields[key]
            if fd.ghost and key.endswith(".$time"):
                continue
            allowed = []
            whole = False
            for cell in cells:
                cls, ref, field = cell[:3]
                cfd = self.w.schema.lookup(cls, field)
                if cfd is None or cfd.key != key:
                    continue
                if ref is None:
                    whole = True
                else:
                    allowed.append(ref.t if isinstance(ref, SV) else ref)
            if whole:
                continue
            r = z3.Int(fresh_name("frame_r"))
            alloc_old = self.alloc_sel(old, r)
            same = z3.And(*[z3.Select(x, r) == z3.Select(y, r) for x, y in zip(old_arrs, new_arrs)])
            goal = z3.Implies(z3.And(alloc_old, *[r != x for x in allowed]), same)
            self.oblige(st, "frame", key, goal, assume_after=False)


def _refs_in(v: SV):
    k = v.ty.kind
    if k == "ref":
        return [v.v]
    if k == "tuple":
        return [r for x in v.v for r in _refs_in(x)]
    if k == "opt":
        return _refs_in(v.v[1])
    return []


def _is_static(fn):
    return any(isinstance(d, ast.Name) and d.id == "staticmethod" for d in fn.decorator_list)


def py_clamp(i, n):
    """Python slice-bound normalisation for a sequence of length n."""
    return z3.If(i < 0, z3.If(i + n < 0, 0, i + n), z3.If(i > n, n, i))


def _to_load(node):
    import copy

    n = copy.deepcopy(node)
    for x in ast.walk(n):
        if hasattr(x, "ctx"):
            x.ctx = ast.Load()
    return n


def _platform_test(test):
    """sys.platform == 'win32' etc. -> False on the fixed POSIX platform; else None."""
    src = ast.unparse(test)
    table = {
        'sys.platform == "win32"': False, "sys.platform == 'win32'": False,
        'sys.platform != "win32"': True, "sys.platform != 'win32'": True,
        "os.name == 'nt'": False, 'os.name == "nt"': False,
        "not hasattr(os, 'dup')": False, 'not hasattr(os, "dup")': False,
        "sys.platform.startswith('win')": False, 'sys.platform.startswith("win")': False,
    }
    return table.get(src)
