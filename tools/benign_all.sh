#!/bin/sh
# benign_all.sh [parallel] : run every kept behaviour-preserving patch (benign/JOBS.txt: patch, affected properties) through tools/benign_run.sh; every line must say rc=0
cat /verif/benign/JOBS.txt | xargs -P ${1:-4} -L 1 /verif/tools/benign_run.sh 2>&1 | grep "rc="
