#!/bin/sh
# benign_run.sh <patch.diff> <prop>... : apply a behaviour-preserving patch to a scratch worktree of /repo HEAD and run the given checks on it; every line must say rc=0
PATCH=$1; shift
TAG=$(basename $PATCH .diff)_$$; WT=/tmp/bnr_$TAG
git -C /repo worktree remove --force $WT 2>/dev/null
git -C /repo worktree add -q $WT HEAD || exit 9
cp /repo/src/execnet/_version.py $WT/src/execnet/_version.py
if git -C $WT apply $PATCH 2>/dev/null; then
  for P in "$@"; do
    (cd /verif && PYVC_EVIDENCE_DIR=/tmp/bnr_ev_$TAG ./check $P --src $WT/src >/tmp/bnr_$TAG.$P.out 2>&1; rc=$?; echo "$(basename $PATCH) $P rc=$rc $(grep -c '^VIOLATION' /tmp/bnr_$TAG.$P.out) violation lines"; if [ $rc != 0 ]; then grep -i "undecided\|failed\|unsupported\|VIOLATION\|Traceback" /tmp/bnr_$TAG.$P.out | cut -c1-260 | head -12; fi)
    rm -f /tmp/bnr_$TAG.$P.out
  done
else
  echo "$PATCH PATCH-DOES-NOT-APPLY"
fi
git -C /repo worktree remove --force $WT; rm -rf /tmp/bnr_ev_$TAG
