#!/bin/sh
# recheck_seeds.sh [seed-dir-name...] : apply every kept seed to a scratch worktree of /repo HEAD and run that property's quick check on it; every line must say rc=1
cd /verif/seeded || exit 9
for S in ${@:-$(ls)}; do
  P=${S%%-*}; WT=/tmp/rs_$S
  git -C /repo worktree remove --force $WT 2>/dev/null
  git -C /repo worktree add -q $WT HEAD || exit 9
  cp /repo/src/execnet/_version.py $WT/src/execnet/_version.py
  if git -C $WT apply /verif/seeded/$S/patch.diff 2>/dev/null; then
    (cd /verif && PYVC_EVIDENCE_DIR=/tmp/rs_ev ./check $P --src $WT/src >/tmp/rs_$S.out 2>&1; echo "$S rc=$? $(grep -c '^VIOLATION' /tmp/rs_$S.out) violation lines, $(grep -c 'failed obligation' /tmp/rs_$S.out) obligations, $(grep -c 'failed bounded' /tmp/rs_$S.out) bounded")
  else
    echo "$S PATCH-DOES-NOT-APPLY"
  fi
  rm -f /tmp/rs_$S.out
  git -C /repo worktree remove --force $WT
done
rm -rf /tmp/rs_ev
