#!/bin/sh
# validate_batch.sh <seed-root> <suffix> <prop>... : copy seeds from <seed-root>_<P> into seeded/<P>-<suffix> and validate each (compact output)
ROOT=$1; SUF=$2; shift 2
for P in "$@"; do
  D=/verif/seeded/$P-$SUF
  mkdir -p $D && cp ${ROOT}_$P/patch.diff ${ROOT}_$P/demo.py ${ROOT}_$P/notes.txt $D/ 2>/dev/null
  echo "######## $P-$SUF"
  /verif/tools/validate_seed.sh $P $D "${TESTS:-testing/test_xspec.py -q}" 2>&1 | cut -c1-230 | grep -v "^SKIP\|^XFAIL\|^XPASS\|KNOWN-FINDING\|^  File\|_thread.start\|RuntimeError\|^\.\.\.\|^--- tests\|^$" | grep -A1 "demo on\|check on\|failed\|VIOLATION\|UNDECIDED\|^OK\|rc=" | grep -v "^--$" | tail -12
done
