#!/bin/sh
# validate_seed.sh <prop> <seed-dir> "<pytest args>"   : confirm a seeded change in a scratch worktree and run the check on it
P=$1; SEED=$2; TESTS=$3
WT=/tmp/val_$P
git -C /repo worktree remove --force $WT 2>/dev/null
git -C /repo worktree add -q $WT HEAD || exit 9
cp /repo/src/execnet/_version.py $WT/src/execnet/_version.py
git -C $WT apply $SEED/patch.diff || { echo "PATCH DOES NOT APPLY"; exit 9; }
echo "--- demo on original:"; (cd / && PYTHONPATH=/repo/src timeout 120 /venv/bin/python $SEED/demo.py >/tmp/val_$P.orig.out 2>&1; echo "rc=$?"; tail -2 /tmp/val_$P.orig.out)
echo "--- demo on changed:"; (cd / && PYTHONPATH=$WT/src timeout 120 /venv/bin/python $SEED/demo.py >/tmp/val_$P.chg.out 2>&1; echo "rc=$?"; tail -2 /tmp/val_$P.chg.out)
echo "--- tests on changed:"; (cd $WT && env -u PYTHONDONTWRITEBYTECODE PYTHONPATH=$WT/src /venv/bin/python -m pytest -q -p no:cacheprovider $TESTS -q 2>&1 | tail -3)
echo "--- check on changed:"; (cd /verif && PYVC_EVIDENCE_DIR=/tmp/val_ev ./check $P --src $WT/src >/tmp/val_$P.check.out 2>&1; rc=$?; grep -v "KNOWN-FINDING" /tmp/val_$P.check.out | tail -8; echo "check rc=$rc"; rm -f /tmp/val_$P.check.out)
git -C /repo worktree remove --force $WT
